"""C08 - an accepted field value can never inject fields or split the paragraph.

case = {"fields": [[name, [first, [cont, ...]]], ...],   the paragraph before the assignment
        "key":    str,                                   field assigned to (existing name, the same
                                                         name in another letter case, or a new name)
        "value":  str,                                   the value tried
        "origin": str,                                   how the paragraph object was obtained (ORIGINS,
                                                         or "text": parsed from the text given in "src")
        "src":    {"text": str, "form": str,             origin "text" only (then "fields" is absent): the
                   "reader": str, "index": int},         text, the input form it is handed over in
                                                         (SRC_FORMS), constructor or iter_paragraphs
                                                         (SRC_READERS; which of the paragraphs it gives)
        "cls":    str,                                   class of the paragraph (CLASSES; default Deb822)
        "route":  str,                                   how the value is assigned (ALL_ROUTES; default d[k] = v)
        "srccls": str,                                   routes "ctor" / "update-map" / "merge-map": the class of
                                                         the mapping the value arrives in (SRC_CLASSES)
        "pre":    str,                                   how the paragraph (and a source that is a paragraph) is
                                                         dumped *before* the assignment (PRE; default: not)
        "dump":   str,                                   how the text is obtained afterwards (DUMPERS; default dump())
        "then":   [[op, index, dumper], ...]}            steps after the judgement that assign nothing (STEP_OPS),
                                                         each followed by another dump

The paragraph - a ``Deb822`` or one of its documented subclasses (Dsc, Changes, Sources, BuildInfo,
Release, PdiffIndex, Packages, Removals) - is built by assignment (neighbour values come from the
C02 domain: valid by construction).  Then the value is assigned to the field by one of the routes
``d[key] = value``, ``d.update({key: value})``, ``d.update(Deb822Dict({key: value}))``,
``d.update(Deb822Dict([(key, value)]))``, ``d.update([(key, value)])``, ``d.update(key=value)`` (names
that are identifiers), ``d.setdefault(key, value)`` (new keys) or ``d.merge_fields(key, other)`` with
``other`` a dict or a Deb822Dict holding the value under that key - all of them assign a value to a
field and must accept/reject alike - and the outcome is judged:

* rejected  -> must be ValueError (any other exception is a violation), the independent rule below
               must say "reject", and ``list(d.items())`` must be what it was;
* accepted  -> the rule must say "accept"; ``d.dump()`` re-read in six input forms (str, bytes,
               text file, binary file, list of lines with and without line ends) with
               ``strict={'whitespace-separates-paragraphs': False}`` - and with the default setting
               when no continuation line is whitespace-only - by ``Deb822.iter_paragraphs``, by the
               constructor of the paragraph's own class and by that class's ``iter_paragraphs``
               must give exactly one paragraph whose field names are exactly the paragraph's names,
               in order.  Values are not compared (that is C02).

``merge_fields(key, other)`` for a field the paragraph lacks, or has with an empty value, assigns
the other mapping's value (judged as above).  For a field with a non-empty value the two values are
combined by the library; how is not part of this property, so the value the paragraph holds
afterwards is read back from the paragraph and *that* is the value judged (rule says "accept",
dump re-reads as one paragraph); a ValueError that leaves the paragraph unchanged is always allowed
there (a single-line value does not combine with a multi-line one).

Class of the source mapping.  Every route that takes a mapping is also taken with the mapping being
a dict, an OrderedDict, a Deb822Dict (built from a dict, from pairs, by item assignment), a
collections.abc.Mapping subclass, a MappingProxyType, a UserDict, an object with only ``keys()`` and
``[]`` and an iterator of pairs (both: update() only), a Deb822 the parser handed out, and a paragraph
of each of the nine classes - of the own class too: ``update(mapping)`` and ``merge_fields(key,
mapping)`` with the mapping holding the one field, and route "ctor": the paragraph is *constructed*
from a mapping that holds all its fields, the value in the place of the field assigned to
(``Deb822(mapping)``, what ``copy()`` does).  A source that is a paragraph refuses the value itself
when it is put in (then there is no case: label) - unless the name is a record field of the *source's*
class, which keeps any text there: a Dsc holding a text under Files handed to ``Deb822(...)``, where
Files is an ordinary field.  Construction is judged like any assignment: accepted -> the rule must
say accept and the dump reads back as one paragraph with the mapping's names; refused -> the rule
must say reject.  A construction refused with TypeError counts as refused (no object exists, nothing
is written; the unchanged library's error path turns the ValueError into a TypeError there).

Dumps before and after.  "Dumping the paragraph" is ``dump()``, ``str()``, ``bytes()`` or ``dump(fd)``
into a text or a binary file (case key "dump").  With "pre" the paragraph - and a source that is a
paragraph - is dumped once *before* the assignment; a refused assignment must then give the same text
again.  With "then", after the judgement, steps that assign nothing follow - a field removed by
``del`` (also in another spelling), ``pop``, ``pop`` with a default, ``popitem``, ``clear``; fields
moved by ``order_last``, ``order_first``, ``sort_fields`` - and after each the paragraph is dumped
again: that text, read back (str and binary-file form, both parser settings where allowed, generic
and own-class readers), must give exactly the names the paragraph has then, in order; an empty
paragraph must read back as no paragraph.

Origin of the paragraph.  "Any paragraph" includes one the parser handed out.  With origin "text"
the paragraph is parsed from a text over the property's alphabet - lines ended by LF, CR LF, a mix
of both or CR, with or without a final terminator, CRs and other characters dropped inside lines -
in one of ten input forms (str, bytes, StringIO, binary file, text-mode file with and without
newline translation, lists of str / bytes lines with terminators, list of lines without, an
iterator), by the constructor or by ``iter_paragraphs`` of the paragraph's class.  A text the parser
refuses with ValueError, or in which it finds no paragraph, gives no case (label).  Otherwise the
field names are taken from the object, the value is assigned and the outcome judged as above; the
default parser setting is used for the re-read only if no field of the paragraph holds a
whitespace-only continuation line.  The dump is, when it holds a CR, also re-read from a text-mode
file.

Field names whose value is a list of records *in the paragraph's own class* (Files in a Dsc, SHA256
in a Release, ...) hold records, not strings.  As neighbours they are filled with two well-formed
records.  A plain *string* assigned to such a field is inside the property as far as the statement
reaches: the assignment may be refused (ValueError, paragraph unchanged) whatever the string looks
like; if it is accepted and ``dump()`` raises, nothing is written and nothing can be read back
(label ``dump-refused``; this is what the unchanged library does for every non-empty string); if
the paragraph can be dumped, the rule must say "accept" for the string and the dump, re-read by
``Deb822.iter_paragraphs`` (the own class's readers would take the string apart as records: not
asked), must give one paragraph with the same names.  ``merge_fields`` is not used on such a field.
The same names in any other class are ordinary fields and are generated on purpose.  Before the first case
of a process one small document of every class with record fields is parsed, dumped and rebuilt by
assignment, and before a case on such a name the name is used, in the case's spelling, in the
classes where it carries records: a paragraph is judged in a process that has used the library
for other kinds of control file before.

case (kind "records") = {"kind": "records", "cls": str, "key": str,     a record field of that class
        "place": str,                 where the field stands before (REC_PLACES; "absent": a new key)
        "n": int, "at": int, "comp": int, "value": str,   n records; record at % n gets value as its
                                                          component number comp % (components)
        "also": [[at, comp, value], ...],                 further components set the same way
        "rec": str, "route": str, "origin": str,          REC_TYPES, REC_ROUTES, ORIGINS
        "sizes": str}                                     Release.size_field_behavior (REC_SIZES)

What such a field is *meant* to hold - a list of records (one record for the -Current fields of a
pdiff Index) - with a string of the property's domain as one component of one record: the value
assigned is then made of strings, and the statement's "can never add a field, truncate the paragraph
or start a new one" applies to what is written.  The records are plain dicts, Deb822Dicts or records
the parser handed out; the list is assigned by ``d[key] = records``, the ``update`` forms or
``setdefault``, or a record the paragraph already holds is changed in place (``d[key][i][comp] =
value``), or the records arrive in a mapping: ``update(paragraph of the own class)``, or the paragraph
is constructed from a paragraph of its own class / a dict holding the records, or by ``copy()``
(a construction refused with AttributeError also counts as refused: the unchanged library refuses
every construction from a mapping that holds records that way); for a Release both documented
settings of ``size_field_behavior`` are used.  Judged:
EITHER the assignment or ``dump()`` is refused with ValueError or TypeError (a refused assignment
must leave the paragraph as it was) - nothing is written, nothing can be injected - OR the text
``dump()`` returns, re-read like any accepted value (generic reader, own class's constructor and
``iter_paragraphs``, six input forms, the default parser setting when the text has no
whitespace-only line), gives one paragraph with exactly the paragraph's field names.  Which strings
are refused is not asked (the unchanged library refuses, from ``dump()``, every component holding
LF or CR and writes everything else).
"""
import collections
import collections.abc
import io
import itertools
import types

from hypothesis import strategies as st

from ..core import Violation, Enum, Hyp, short
from ..gen import c02_deb822text as G

from debian import deb822 as _lib
from debian.deb822 import Deb822, Deb822Dict

ID = "C08"
LEVEL = "exploration"
RULE = ("a case is (paragraph, key, value); enumerated: every string of 0..4 characters over the 12 "
        "characters 'a B 0 : # - . SPACE TAB CR LF e-acute' assigned to the middle key of a three-field "
        "paragraph A,K,Z (and, for strings of 0..3 characters, to the first key, the last key and a new "
        "key); generated: sequences of 0..14 tokens over single characters and boundary-hitting "
        "multi-character tokens ('\\n ', '\\n\\t', '\\n\\n', '\\r\\n', 'B: ', '\\n#', '\\n.', an indented PGP "
        "armor line, ...) assigned to the first/middle/last key, to the same key in another letter case "
        "or to a new key of a 1..4-field paragraph with single- and multi-line neighbours (160 fixed "
        "paragraphs over boundary-shaped values, or a freshly generated one). "
        "The tokens include text that means something to str.format / %-formatting / escapes and nothing "
        "to the format ('{', '}', '{}', '{0}', '{x}', '${misc:Depends}', '%s', '%(x)s', '%', '$', "
        "backslash); a third enumeration takes every sequence of 0..3 tokens over 'a', SPACE, LF, ':' and "
        "eight of those, for the middle key and a new key. "
        "Further dimensions of every generated case and of a second enumeration (every string of 0..3 "
        "characters over the same 12 characters x 9 assignment routes): the route - d[k]=v, update(dict), "
        "update(Deb822Dict from a dict / from pairs), update(list of pairs), update(**kw), setdefault for "
        "a new key, merge_fields(key, dict / Deb822Dict) for the multi-line middle key, the single-line "
        "first key, a new key and an existing empty field; the reader of the dump - Deb822.iter_paragraphs, "
        "the own class's constructor and iter_paragraphs, each in six input forms; the class of the paragraph - Deb822, Dsc, Changes, Sources, BuildInfo, Release, "
        "PdiffIndex, Packages, Removals; and keys that carry records in another class but are ordinary in "
        "this one (Files in a Release, SHA256 in a Dsc, ...: all 0..1-character strings x every such "
        "(class, name) pair, as the middle field and as a new key in another letter case), after ordinary "
        "use of every class in the same process. "
        "Origin of the paragraph as a dimension: the paragraph A,K,Z parsed from its text written with "
        "LF, CR LF, alternating CR LF/LF (both ways) or CR line ends, with/without final terminator, in "
        "10 input forms (str, bytes, StringIO, BytesIO, text-mode file translated/untranslated, list of "
        "lines with/without terminators, list of bytes lines, iterator) by constructor or iter_paragraphs, "
        "then every string of 0..2 characters over the 12 characters assigned; and the LF text of A,K,Z "
        "with every string of 0..3 characters over the 12 characters inserted at the end of a first line, "
        "inside a continuation line or at the end of the last line, parsed in every form (3-character "
        "strings: one form each), then an ordinary value assigned to another/new field; one generated "
        "case in four renders its paragraph with 1..3 cycling line ends, drops 0..2 tokens (CR-led "
        "tokens and the value tokens) anywhere in the text and parses it in a drawn form. "
        "Kind of field as a dimension: every string of 0..2 characters x each of the 34 (class, record "
        "field of that class) pairs - Files on Dsc, MD5Sum on Release, Checksums-Sha1 on BuildInfo, "
        "SHA1-History on PdiffIndex, ... - assigned as a plain string with the field absent, present with "
        "records, or present under another spelling; generated cases do the same with token values; "
        "record fields also occur as neighbours, holding records. "
        "Lists of records as a dimension: for each of the 102 (class, record field, component) triples a "
        "list of three records (or one) in which one component - checksum, size (the padded column of "
        "Release and PdiffIndex), section, priority, name, date, filename - of the first, middle or last "
        "record holds a token of the value pool or '7' + token + 'B: x' (generated: a token sequence, up to "
        "three components at once), assigned by d[k]=v / update / setdefault or set in place in a record "
        "the paragraph holds, records being dicts, Deb822Dicts or parser-made, both "
        "Release.size_field_behavior settings: refused (nothing written) or written and read back as "
        "one paragraph with the same names. "
        "Class of the source mapping as a dimension: every string of 0..2 characters x 21 classes of "
        "mapping (dict, OrderedDict, Deb822Dict three ways, Mapping subclass, MappingProxyType, UserDict, "
        "keys()+[] object, iterator of pairs, paragraph of the own class, parsed Deb822, a paragraph of each "
        "of the 9 classes) x {construct the paragraph from it, update() with it, merge_fields() with it}; "
        "and for all 230 (class, name, class in which that name carries records) triples a source paragraph "
        "of that class holding, under that name, every string of 0..1 characters and 5 paragraph-splitting "
        "values; record lists also arrive by update(own-class paragraph), construction from an own-class "
        "paragraph / a dict, and copy(). "
        "Dumps as a dimension: the paragraph (and a source paragraph) dumped before the assignment in 5 ways "
        "or not at all x 9 steps that assign nothing afterwards (del, del in another spelling, pop, pop with "
        "default, popitem, clear, order_last, order_first, sort_fields) x 5 ways of getting the text after "
        "the assignment x 5 after the step, pairs of steps, parsed paragraphs, record fields as neighbours: "
        "every later text must read back as exactly the names the paragraph then has; generated cases draw "
        "route, source class, dump beforehand, dumper and 0..3 steps as well. "
        "Non-trivial = the value is rejected, or is accepted and contains a line boundary (LF or CR), or "
        "is a string for a record field, or the paragraph was parsed from a text containing CR, or (record "
        "lists) the write is refused or the component holds LF, CR, ':', a leading '#'/'-' or only blanks; "
        "distinct = distinct canonical JSON of the case")
ASSUMPTIONS = [
    "rejection rule restated by hand: reject iff the value ends in LF, or some line after the first is "
    "empty or does not start with SPACE/TAB, where lines end at LF, CR LF or CR (the str input form of "
    "the parser splits there); inside the property's character domain nothing else is a line boundary",
    "a continuation line counts as whitespace-only if it consists of SPACE/TAB once the value is split "
    "at LF, CR LF and CR (the coarsest reading: the default parser setting is then not exercised); "
    "every string value the paragraph holds after the assignment is looked at, not only the assigned one",
    "field names of the dumped paragraph are taken from the object itself (list(d.keys())) and must "
    "equal, ignoring case, the names before the assignment plus the assigned key if it was new",
    "which field names carry records (lists of dicts, not strings) in which class is restated by hand "
    "from the file formats (.dsc/.changes/Sources: Files, Checksums-Sha1/256/512; .buildinfo: "
    "Checksums-Md5/Sha1/Sha256/Sha512; Release: MD5Sum, SHA1, SHA256, SHA512; pdiff Index: "
    "[X-Unmerged-]SHA1/SHA256-History/Patches/Download and SHA1/SHA256-Current); a neighbour with such "
    "a name in the paragraph's own class holds two well-formed records obtained by parsing (origins "
    "copy / mapping are replaced by plain construction then: copying a paragraph that holds records "
    "raises AttributeError in the unchanged library, which is not an assignment and not judged here)",
    "a plain string assigned to a record field of the paragraph's own class: ValueError with the "
    "paragraph unchanged is always allowed; accepted and dump() raising (any exception) counts as "
    "'nothing written' and is not a violation (the unchanged library accepts every string there and "
    "raises TypeError from dump() for every non-empty one); accepted and dumped -> the rule must say "
    "accept and the generic reader must give the same names; the own-class readers and merge_fields "
    "are not used for such a case",
    "record lists (kind 'records'): the names of the components of a record in each class are restated "
    "by hand (md5sum/sha1/.../size/name, Changes Files with section and priority, pdiff Index "
    "SHA1|SHA256/size/date|filename); 'refused' = ValueError or TypeError from the assignment or from "
    "dump() (the unchanged library accepts every assignment and raises ValueError from dump() for a "
    "component holding LF or CR); a refused assignment must leave list(d.items()) as it was, a refused "
    "dump() is not asked to (the paragraph then still holds the records); no string is required to be "
    "refused or to be accepted; a refusal while setting a component in place in a held record is taken "
    "as it comes; the default parser setting is used for the re-read only if the written text has no "
    "whitespace-only line (a record of blank components is one); field names only are compared - the "
    "own-class readers take the written lines apart as records again, whatever they hold",
    "origin 'text': a text the parser refuses (ValueError) or that holds no paragraph gives no case; "
    "a parsed paragraph holding a record field of its own class is skipped (records with generated "
    "content are C12's business), and so is one holding a name that is not a Policy 5.1 field name (a "
    "binary-mode line 'CR #X: y' is read as a field called '#X'); field names before the assignment are list(d.keys()); a text-mode "
    "file is io.TextIOWrapper over the bytes (nothing is written to disk)",
    "construction from a mapping (route ctor) is taken as an assignment of every value the mapping holds, "
    "the neighbours being valid by construction; refused = ValueError or TypeError from the constructor "
    "(the unchanged library raises TypeError from its error path when the mapping is not a list: no "
    "object exists, nothing can be written); update(mapping) and merge_fields(key, mapping) must refuse "
    "with ValueError like d[k]=v; a record-field neighbour is given to the constructor as the text of two "
    "well-formed records; for a key that carries records in the paragraph's own class the constructor "
    "would take the text apart as records, so update(mapping) is used instead (label route:update-map)",
    "a source mapping that is itself a paragraph (or a parsed Deb822) and refuses the value when it is "
    "put in, or does not hand back the same names when parsed, gives no case (label "
    "source-class-cannot-hold-the-value); the custom Mapping / keys()+[] classes and the iterator of "
    "pairs are defined in this module; keys()+[] and the iterator are for update() only (elsewhere the "
    "Mapping subclass is used); a source paragraph holding a text in a record field of its class cannot "
    "be dumped beforehand (any exception from that dump is ignored, label source-dump-refused)",
    "dumping = dump(), str(d), bytes(d) decoded as UTF-8, dump(StringIO, text_mode=True), dump(BytesIO) "
    "decoded as UTF-8 - the documented ways to the same text",
    "steps after the judgement (del / pop / popitem / clear / order_* / sort_fields): which field a step "
    "removes or where it moves one is not modelled (C09) - the names demanded of the later text are "
    "list(d.keys()) after the step; the step's field is names[index % len(names)], no step on an empty "
    "paragraph; an empty paragraph must read back as [] (iter_paragraphs) or one paragraph without "
    "fields (constructor); the later text is re-read from the str and the binary-file form only; a later "
    "dump may raise only while a record field of the own class holds a plain string; after a refused "
    "assignment that followed a dump, the same way of dumping must give the same text again",
    "record lists, routes ctor-own / ctor-dict / copy: refused = ValueError, TypeError or AttributeError "
    "from the construction (the unchanged library refuses every construction from a mapping holding "
    "records with AttributeError); the source paragraph is filled by assignment and may be dumped "
    "beforehand (a refusal of that dump is ignored)",
    "update() is exercised with exactly one item, so that 'rejected leaves the paragraph unchanged' "
    "is what the statement says; setdefault on an existing key and the keyword form with a name that is "
    "not an identifier fall back to d[k]=v / update(dict) (label route:...)",
    "merge_fields(key, other) is taken as an assignment route: with the field absent from or empty in "
    "the paragraph the assigned value is other[key]; with a non-empty field the combined value is not "
    "modelled - the field's value after an accepted call is read from the paragraph (d[key]) and judged "
    "by the rule and by re-reading the dump, and a ValueError leaving the items unchanged is accepted "
    "without asking the rule (label merge-with-nonempty-field:...); the three-argument form "
    "merge_fields(key, d1, d2) assigns nothing and is not exercised",
    "the constructor of a class reads one paragraph (the first): its result is compared as a "
    "one-paragraph list, so a dump that splits shows up as lost fields; iter_paragraphs of the own "
    "class is called with use_apt_pkg=False (the internal parser is the one the statement speaks of)",
    "the warm-up (parse, read, dump, re-assign one two-record document per class; per case the same "
    "for the case's spelling of the key in the classes where it carries records) is not judged; an "
    "exception escaping from it is reported by the engine as EXC:...",
    "Hypothesis 6.168 generators; sha1 for distinctness",
]
EXHAUSTIVE = {
    "quick": "all strings of 0..4 characters over 12 characters (22 621) assigned to the middle key of "
             "A,K,Z; all strings of 0..3 characters (1 885) x {first key, last key, new key}; "
             "all strings of 0..3 characters x 9 assignment routes (class and origin cycling; the two "
             "merge_fields routes x {multi-line key, single-line key, new key, empty field}); all strings "
             "of 0..1 characters x every (class, name carrying records in another class) pair; all "
             "sequences of 0..3 tokens over 12 letter/blank/LF/brace/percent/backslash tokens x {middle key, "
             "new key}",
    "thorough": "all strings of 0..5 characters over 12 characters (271 453) assigned to the middle key of "
                "A,K,Z; all strings of 0..4 characters (22 621) x {first key, last key, new key}; "
                "all strings of 0..4 characters x 9 assignment routes (class and origin cycling; the two "
                "merge_fields routes x {multi-line key, single-line key, new key, empty field}); all "
                "strings of 0..1 characters x every (class, name carrying records in another class) pair; "
                "all sequences of 0..4 tokens over 12 letter/blank/LF/brace/percent/backslash tokens x "
                "{middle key, new key}",
}
EXHAUSTIVE_ROUTES = {
    "quick": "all strings of 0..3 characters over 12 characters (1 885) x 9 routes (merge_fields routes x 4 "
             "targets), + one (class, foreign record name) pair each; all strings of 0..1 characters (13) x all such pairs x 2",
    "thorough": "all strings of 0..4 characters over 12 characters (22 621) x 9 routes (merge_fields routes x 4 "
                "targets), + one (class, foreign record name) pair each; all strings of 0..1 characters (13) x all such pairs x 2",
}
EXHAUSTIVE_FORMAT = {
    "quick": "all sequences of 0..3 tokens over 'a', SPACE, LF, ':', '{', '}', '{}', '{0}', "
             "'${misc:Depends}', '%s', '%(x)s', backslash (1 885) x {middle key, new key}; route, class "
             "and origin cycling",
    "thorough": "all sequences of 0..4 tokens over the same 12 tokens (22 621) x {middle key, new key}; "
                "route, class and origin cycling",
}
EXHAUSTIVE_RECORDS = {
    "quick": "all strings of 0..2 characters over 12 characters (157) x all 34 (class, record field of that "
             "class) pairs; field absent / present with records / present in another spelling, route and "
             "origin cycling",
    "thorough": "all strings of 0..3 characters over 12 characters (1 885) x all 34 (class, record field of "
                "that class) pairs; field absent / present with records / present in another spelling, "
                "route and origin cycling",
}
EXHAUSTIVE_SOURCE = {
    "quick": "paragraph A,K,Z parsed from its text in 5 line-end styles (LF, CR LF, CR LF/LF alternating "
             "both ways, CR) x 10 input forms, then all strings of 0..2 characters over 12 characters (157) "
             "assigned; final terminator, reader (constructor / iter_paragraphs), key, class and route cycling",
    "thorough": "paragraph A,K,Z parsed from its text in 5 line-end styles x 10 input forms, then all strings "
                "of 0..3 characters over 12 characters (1 885) assigned; final terminator, reader, key, class "
                "and route cycling",
}
EXHAUSTIVE_STRAY = {
    "quick": "the LF-terminated text of A,K,Z with every string of 0..3 characters over 12 characters "
             "(1 885) inserted at 3 places (end of a first line, inside a continuation line, end of the "
             "last line), parsed in every one of 10 input forms (strings of 3 characters: one form each), "
             "then an ordinary value assigned to another or a new field; reader, class and route cycling",
    "thorough": "the same with every string of 0..4 characters (22 621; strings of 3..4 characters: one "
                "form each)",
}
EXHAUSTIVE_RECORD_LISTS = {
    "quick": "every (class, record field of that class, component of its records) triple (102) x every "
             "token of the value pool (53), the token alone and '7' + token + 'B: x' as the component "
             "(position of the record cycling; for the 24 tokens holding LF or CR the latter in the first, "
             "the middle and the last of three records); place of the field in the paragraph (absent / first / middle / last), other "
             "spelling of the name, one record instead of three, kind of record object (dict, Deb822Dict, "
             "handed out by the parser), route (d[k]=v, update forms, setdefault, changing a held record in "
             "place, update with an own-class paragraph, construction from an own-class paragraph / a dict, "
             "copy()), origin and Release.size_field_behavior cycling",
    "thorough": "the same, every case with all three kinds of record object and both size-column settings",
}
EXHAUSTIVE_SOURCE_CLASSES = {
    "quick": "all strings of 0..2 characters over 12 characters (157) x 21 classes of source mapping (dict, "
             "OrderedDict, Deb822Dict built from a dict / from pairs / by item assignment, a Mapping subclass, "
             "MappingProxyType, UserDict, an object with keys() and [] only, an iterator of pairs, a paragraph "
             "of the own class, a parsed Deb822, a paragraph of each of the 9 classes) x {constructor, "
             "update(), merge_fields()}; + one (class, name, source class in which the name carries records) "
             "triple each; all strings of 0..1 characters and 5 paragraph-splitting values x all 230 such triples; "
             "field, class, origin, dump beforehand cycling",
    "thorough": "the same with all strings of 0..3 characters (1 885)",
}
EXHAUSTIVE_LATER_DUMPS = {
    "quick": "6 ways of dumping beforehand (none, dump(), str(), dump(text fd), dump(binary fd), bytes()) x 9 "
             "steps that assign nothing (del, del in another spelling, pop, pop with default, popitem, clear, "
             "order_last, order_first, sort_fields) x 5 ways of getting the text after the assignment x 5 after "
             "the step x 5 values (accepted single-line, accepted multi-line, two refused, empty); 6 x every "
             "ordered pair of steps x 3 values; 9 steps x 5 dumpers x (10 input forms of a parsed paragraph + "
             "every third (class, record field) pair as a neighbour); field named by the step, class, route, "
             "source class and origin cycling",
    "thorough": "the same, the first block in three classes each, every (class, record field) pair",
}
BUDGET = {"quick": 400, "thorough": 2400}

WSP_OFF = {"whitespace-separates-paragraphs": False}


# ------------------------------------------------------------------------------------------
# the rule, restated


def split_lines(value):
    """Lines of ``value``; a line ends at LF, CR LF or CR.  No trailing empty piece for a final
    terminator (like file iteration), which is why 'ends in LF' is a separate clause."""
    out, cur, i, n = [], "", 0, len(value)
    while i < n:
        ch = value[i]
        if ch == "\r" and i + 1 < n and value[i + 1] == "\n":
            out.append(cur)
            cur = ""
            i += 2
            continue
        if ch == "\n" or ch == "\r":
            out.append(cur)
            cur = ""
            i += 1
            continue
        cur += ch
        i += 1
    if cur != "" or not value or value[-1] not in "\r\n":
        out.append(cur)
    return out


def rule(value):
    """None if the value must be accepted, else the name of the clause that demands rejection."""
    if value.endswith("\n"):
        return "trailing-newline"
    for line in split_lines(value)[1:]:
        if line == "":
            return "empty-line"
        if line[0] not in " \t":
            return "unindented-line"
    return None


def has_blank_continuation(value):
    return any(l.strip(" \t") == "" for l in split_lines(value)[1:])


def in_domain(value):
    return isinstance(value, str) and all(ch.isprintable() or ch in "\t\r\n" for ch in value)


# ------------------------------------------------------------------------------------------
# oracle


def _forms(text):
    """(name, factory) for the input forms; a factory gives a fresh object for every parse."""
    raw = text.encode("utf-8")
    parts = text.split("\n")
    if parts and parts[-1] == "":
        parts.pop()
        ended = True
    else:
        ended = False
    with_nl = [p + "\n" for p in parts]
    if not ended and with_nl:
        with_nl[-1] = with_nl[-1][:-1]
    out = [
        ("str", lambda: text),
        ("bytes", lambda: raw),
        ("StringIO", lambda: io.StringIO(text)),
        ("BytesIO", lambda: io.BytesIO(raw)),
        ("lines+nl", lambda: list(with_nl)),
        ("lines", lambda: list(parts)),
    ]
    if "\r" in text:
        # a file opened in text mode (universal newlines) differs from the above only then
        out.append(("text-file", lambda: io.TextIOWrapper(io.BytesIO(raw), encoding="utf-8")))
    return out


def _readers(cls, generic_only=False):
    """(name, read(source, strict) -> [field names of each paragraph]) for the ways a dump of a
    ``cls`` paragraph is read back: the generic ``Deb822.iter_paragraphs`` and the paragraph's own
    class - its constructor (which reads one paragraph: the first) and its ``iter_paragraphs``."""
    klass = getattr(_lib, cls)
    out = [("Deb822.iter_paragraphs",
            lambda src, strict: [list(p.keys()) for p in Deb822.iter_paragraphs(src, strict=strict)])]
    if generic_only:
        return out
    out += [("%s(...)" % cls,
            lambda src, strict: [list(klass(src, strict=strict).keys())])]
    if cls != "Deb822":
        out.append(("%s.iter_paragraphs" % cls,
                    lambda src, strict: [list(p.keys()) for p in
                                         klass.iter_paragraphs(src, use_apt_pkg=False, strict=strict)]))
    return out


def _classify(got, names):
    if len(got) != 1:
        return "paragraph-split", "%d paragraphs" % len(got)
    g = got[0]
    if g == names:
        return None, ""
    extra = [n for n in g if n not in names]
    missing = [n for n in names if n not in g]
    if extra:
        return "field-injected", "extra fields %r" % extra
    if missing:
        return "field-lost", "missing fields %r" % missing
    return "field-order", "order %r" % g


# ------------------------------------------------------------------------------------------
# the classes of paragraph, and the field names whose value is a list of records (not a string)
#
# "A Deb822 paragraph" includes the library's documented subclasses.  In some of them a few field
# names carry *records* (a .dsc's Files, a Release file's SHA256, ...): their value is not a plain
# string, and assigning to them is outside this property (C12's business).  The table restates, by
# hand, which names those are in which file format; everywhere else the same name is an ordinary
# field and the property applies to it in full.

_SRC = ["Files", "Checksums-Sha1", "Checksums-Sha256", "Checksums-Sha512"]
_PDIFF = [pre + h + "-" + what for pre in ("", "X-Unmerged-") for h in ("SHA1", "SHA256")
          for what in ("History", "Patches", "Download")] + ["SHA1-Current", "SHA256-Current"]
STRUCTURED = {
    "Deb822": [],
    "Packages": [],
    "Removals": [],
    "Dsc": _SRC,
    "Changes": _SRC,
    "Sources": _SRC,
    "BuildInfo": ["Checksums-Md5", "Checksums-Sha1", "Checksums-Sha256", "Checksums-Sha512"],
    "Release": ["MD5Sum", "SHA1", "SHA256", "SHA512"],
    "PdiffIndex": _PDIFF,
}
CLASSES = list(STRUCTURED)
STRUCTURED_LOWER = {c: frozenset(n.lower() for n in names) for c, names in STRUCTURED.items()}
ALL_STRUCTURED = sorted({n for names in STRUCTURED.values() for n in names})


def foreign_names(cls):
    """Names that carry records in some *other* class and are ordinary fields in ``cls``."""
    return [n for n in ALL_STRUCTURED if n.lower() not in STRUCTURED_LOWER[cls]]


def _record_line(cls, name):
    """One well-formed record of field ``name`` of class ``cls`` (plain data about the formats)."""
    if cls == "Changes" and name.lower() == "files":
        return "0123456789abcdef0123456789abcdef 11 misc optional w_1.dsc"
    if cls == "PdiffIndex":
        return "0123abcd 11" + ("" if name.lower().endswith("-current") else " 2026-01-01-0000.00")
    return "0123abcd 11 w_1.orig.tar.gz"


def _use_structured(cls, names):
    """Ordinary use of a ``cls`` paragraph whose record fields ``names`` are present: parse it,
    look at the records, dump it, assign the records to a second paragraph, dump that."""
    klass = getattr(_lib, cls)
    text = "Origin: w\n"
    for n in names:
        rec = _record_line(cls, n)
        single = cls == "PdiffIndex" and n.lower().endswith("-current")
        text += "%s: %s\n" % (n, rec) if single else "%s:\n %s\n %s\n" % (n, rec, rec)
    p = klass(text)
    q = klass()
    q["Origin"] = "w"
    for n in names:
        q[n] = p[n]
    p.dump()
    q.dump()


_WARM = []


def warm_up():
    """Once per process, before the first case: one small document of every class that has record
    fields, every such field present in its usual spelling - the process has then *used* the
    library the ordinary way, as any program handling several kinds of control file has."""
    if _WARM:
        return
    _WARM.append(True)
    for cls in CLASSES:
        if STRUCTURED[cls]:
            _use_structured(cls, STRUCTURED[cls])


def warm_up_key(own_cls, key):
    """Before a case on a name that carries records elsewhere: use that very spelling of the name
    in every class where it does."""
    for cls in CLASSES:
        if cls != own_cls and key.lower() in STRUCTURED_LOWER[cls]:
            _use_structured(cls, [key])


# ------------------------------------------------------------------------------------------
# the routes by which a value is assigned to a field

ROUTES = ["setitem", "update-dict", "update-Deb822Dict", "update-Deb822Dict-pairs", "update-pairs",
          "update-kwargs", "setdefault", "merge-dict", "merge-Deb822Dict"]
# ... and the routes that take a mapping of the class named by the case's "srccls": the paragraph
# is constructed from it (it holds all fields), or it is handed to update() / merge_fields() (it
# holds the one field)
MAP_ROUTES = ("ctor", "update-map", "merge-map")
ALL_ROUTES = ROUTES + list(MAP_ROUTES)
MERGE_ROUTES = ("merge-dict", "merge-Deb822Dict", "merge-map")


def effective_route(route, key, is_new, record_key=False):
    """setdefault assigns only when the key is new, the keyword form needs an identifier, the text a
    constructor is given for a record field is taken apart as records (not a string assigned):
    where a route does not apply, the plain one is taken."""
    if route == "setdefault" and not is_new:
        return "setitem"
    if route == "update-kwargs" and not key.isidentifier():
        return "update-dict"
    if route == "ctor" and record_key:
        return "update-map"
    return route


# ------------------------------------------------------------------------------------------
# the class of the mapping a paragraph is constructed from / updated with / merged with


class _Mapping(collections.abc.Mapping):
    """A read-only mapping that is not a dict (collections.abc.Mapping subclass)."""

    def __init__(self, pairs):
        self._d = dict(pairs)

    def __getitem__(self, k):
        return self._d[k]

    def __iter__(self):
        return iter(self._d)

    def __len__(self):
        return len(self._d)


class _KeysGetitem(object):
    """The least update() asks of a mapping: keys() and []."""

    def __init__(self, pairs):
        self._d = dict(pairs)

    def keys(self):
        return list(self._d)

    def __getitem__(self, k):
        return self._d[k]


SRC_CLASSES = (["dict", "OrderedDict", "Deb822Dict", "Deb822Dict-pairs", "Deb822Dict-setitem", "Mapping",
                "MappingProxy", "UserDict", "keys-getitem", "items-iterator", "own", "Deb822-parsed"]
               + list(STRUCTURED))


def effective_srccls(srccls, route, cls):
    """The class of the source mapping actually used: the paragraph's own class for "own"; an
    iterator of pairs and an object with keys() and [] only are for update() - elsewhere the
    Mapping subclass is taken."""
    if srccls == "own":
        return cls
    if srccls in ("keys-getitem", "items-iterator") and route != "update-map":
        return "Mapping"
    return srccls


def build_source(srccls, pairs):
    """A mapping of class ``srccls`` holding ``pairs`` (in order) - or None if an object of that
    class cannot hold them: a paragraph class refuses a value (ValueError) on the way in, a parsed
    paragraph holds what the parser read."""
    pairs = [(k, v) for k, v in pairs]
    if srccls == "dict":
        return dict(pairs)
    if srccls == "OrderedDict":
        return collections.OrderedDict(pairs)
    if srccls == "Deb822Dict":
        return Deb822Dict(dict(pairs))
    if srccls == "Deb822Dict-pairs":
        return Deb822Dict(pairs)
    if srccls == "Deb822Dict-setitem":
        src = Deb822Dict()
        for k, v in pairs:
            src[k] = v
        return src
    if srccls == "Mapping":
        return _Mapping(pairs)
    if srccls == "MappingProxy":
        return types.MappingProxyType(dict(pairs))
    if srccls == "UserDict":
        return collections.UserDict(pairs)
    if srccls == "keys-getitem":
        return _KeysGetitem(pairs)
    if srccls == "items-iterator":
        return iter(pairs)
    parsed = srccls == "Deb822-parsed"
    src = getattr(_lib, "Deb822" if parsed else srccls)()
    try:
        for k, v in pairs:
            src[k] = v          # (a record field of that class keeps a text unlooked at)
    except ValueError:
        return None
    if parsed:
        got = list(Deb822.iter_paragraphs(src.dump(), strict=dict(WSP_OFF)))
        if len(got) != 1 or [k.lower() for k in got[0].keys()] != [k.lower() for k, _v in pairs]:
            return None
        return got[0]
    return src


def records_text(cls, name, n=2):
    """The text of a record field holding ``n`` well-formed records (what ``records`` parses)."""
    rec = _record_line(cls, name)
    return rec if single_record(cls, name) else "\n" + "\n".join([" " + rec] * n)


# ------------------------------------------------------------------------------------------
# ways to get the text of a paragraph, and steps between two dumps that assign nothing

DUMPERS = ["dump", "str", "dump-text-fd", "dump-binary-fd", "bytes"]
PRE = ["none"] + DUMPERS
STEP_OPS = ["del", "del-othercase", "pop", "pop-default", "popitem", "clear", "order-last", "order-first",
            "sort"]


def dump_by(d, dumper):
    """The text of the paragraph: dump(), str(), bytes() or dump(fd) into a text / binary file."""
    if dumper == "str":
        return str(d)
    if dumper == "bytes":
        return bytes(d).decode("utf-8")
    if dumper == "dump-text-fd":
        fd = io.StringIO()
        d.dump(fd, text_mode=True)
        return fd.getvalue()
    if dumper == "dump-binary-fd":
        fd = io.BytesIO()
        d.dump(fd)
        return fd.getvalue().decode("utf-8")
    return d.dump()


def steps_ok(steps):
    return (isinstance(steps, list) and len(steps) <= 4 and all(
        isinstance(x, list) and len(x) == 3 and x[0] in STEP_OPS and isinstance(x[1], int)
        and not isinstance(x[1], bool) and x[2] in DUMPERS for x in steps))


def apply_step(d, op, target):
    if op == "del":
        del d[target]
    elif op == "del-othercase":
        del d[_othercase(target)]
    elif op == "pop":
        d.pop(target)
    elif op == "pop-default":
        d.pop(_othercase(target), None)
    elif op == "popitem":
        d.popitem()
    elif op == "clear":
        d.clear()
    elif op == "order-last":
        d.order_last(target)
    elif op == "order-first":
        d.order_first(target)
    elif op == "sort":
        d.sort_fields()
    else:
        raise AssertionError(op)


def later_dumps(d, steps, cls, how, labels):
    """After the assignment was judged: steps that assign nothing - a field removed by del / pop /
    popitem / clear, fields re-ordered - each followed by another dump: the text written *then*,
    read back, must give exactly the names the paragraph has *then* (no paragraph for an empty
    one)."""
    own = STRUCTURED_LOWER[cls]
    for op, idx, dumper in steps:
        names = list(d.keys())
        if not names:
            break
        target = names[idx % len(names)]
        apply_step(d, op, target)
        names = list(d.keys())
        what = "%s; then %s (%r), then %s" % (how, op, target, dumper)
        labels.append("then:" + op)
        labels.append("then-dumper:" + dumper)
        # a record field holding a plain string cannot be written (see the module docstring)
        unwritable = any(n.lower() in own and isinstance(d[n], str) for n in names)
        try:
            text = dump_by(d, dumper)
        except Exception:
            if not unwritable:
                raise
            labels.append("then:dump-refused")
            continue
        if not isinstance(text, str):
            raise Violation("dump-not-a-string", "after %s the text is %s" % (what, short(text)))
        settings = [("wsp-off", WSP_OFF)]
        if not any(isinstance(v, str) and has_blank_continuation(v) for v in d.values()):
            settings.append(("default", None))
        forms = _forms(text)
        forms = [forms[0], forms[3]]                  # str, binary file
        for rname, read in _readers(cls, generic_only=unwritable):
            for sname, strict in settings:
                for fname, make in forms:
                    try:
                        got = read(make(), None if strict is None else dict(strict))
                    except ValueError as e:
                        got, sig, why = None, "reread-raised", "ValueError(%s)" % e
                    else:
                        if not names:
                            sig, why = ((None, "") if got in ([], [[]]) else
                                        ("text-for-empty-paragraph", "the paragraph has no fields"))
                        else:
                            sig, why = _classify(got, names)
                    if sig:
                        raise Violation("later-dump:" + sig,
                                        "%s: text %s re-read by %s from %s (%s) gives %s: %s; the "
                                        "paragraph's names are %r" % (what, short(text), rname, fname, sname,
                                                                      short(got), why, names))


def assign(d, key, value, route):
    if route == "setitem":
        d[key] = value
    elif route == "update-dict":
        d.update({key: value})
    elif route == "update-Deb822Dict":
        d.update(Deb822Dict({key: value}))
    elif route == "update-Deb822Dict-pairs":
        d.update(Deb822Dict([(key, value)]))
    elif route == "update-pairs":
        d.update([(key, value)])
    elif route == "update-kwargs":
        d.update(**{key: value})
    elif route == "setdefault":
        d.setdefault(key, value)
    elif route == "merge-dict":
        # merge_fields(key, other): the paragraph takes over / merges in the other mapping's field
        d.merge_fields(key, {key: value})
    elif route == "merge-Deb822Dict":
        d.merge_fields(key, Deb822Dict({key: value}))
    else:
        raise AssertionError(route)


def name_ok(n):
    """Policy 5.1 field name (the names that carry records in some class are allowed here)."""
    return (isinstance(n, str) and n != "" and n[0] in G.NAME_FIRST and all(c in G.NAME_CHARS for c in n))


def fields_ok(fields):
    if not isinstance(fields, list) or not fields:
        return False
    seen = set()
    for f in fields:
        if not (isinstance(f, list) and len(f) == 2 and name_ok(f[0]) and G.valid_value(f[1])):
            return False
        if f[0].lower() in seen:
            return False
        seen.add(f[0].lower())
    return True


ORIGINS = ["new", "empty-str", "empty-list", "blank-lines", "empty-bytes", "parsed", "parsed-lines",
           "iter", "copy", "mapping", "dsc-empty"]


def make_paragraph(fields, origin, cls="Deb822"):
    """The paragraph the value is assigned into, of class ``cls``, obtained the way ``origin``
    says: the property speaks of *any* paragraph, however the object came to be."""
    klass = getattr(_lib, cls)
    own = STRUCTURED_LOWER[effective_class(cls, origin)]

    def fill(d):
        for n, v in fields:
            if n.lower() in own:         # a field of records in this class: it gets records
                d[n] = records(effective_class(cls, origin), n)
            else:
                d[n] = G.value_string(v)     # C02 domain: must be accepted; a ValueError here escapes
        return d
    if origin == "empty-str":
        return fill(klass(""))
    if origin == "empty-list":
        return fill(klass([]))
    if origin == "blank-lines":
        return fill(klass("\n\n"))
    if origin == "empty-bytes":
        return fill(klass(io.BytesIO(b"")))
    if origin == "dsc-empty":            # (the effective class is Dsc: see effective_class)
        return fill(klass(""))
    base = fill(klass())
    if origin == "parsed":
        return klass(base.dump())
    if origin == "parsed-lines":
        return klass(base.dump().split("\n"))
    if origin == "iter":
        got = list(klass.iter_paragraphs(base.dump(), use_apt_pkg=False))
        if len(got) != 1:
            raise Violation("origin-parse", "iter_paragraphs of %s gave %d paragraphs" % (short(base.dump()), len(got)))
        return got[0]
    if origin == "copy":
        return base.copy()
    if origin == "mapping":
        return klass(base)
    return base


def effective_class(cls, origin):
    return "Dsc" if (cls == "Deb822" and origin == "dsc-empty") else cls


def single_record(cls, name):
    """The -Current fields of a pdiff Index hold one record (written on the field's own line)."""
    return cls == "PdiffIndex" and name.lower().endswith("-current")


def records(cls, name, n=2):
    """What a ``cls`` paragraph holds under its record field ``name``: ``n`` well-formed records (one,
    for the single-record fields of a pdiff Index), obtained the ordinary way - by parsing."""
    rec = _record_line(cls, name)
    text = "%s: %s\n" % (name, rec) if single_record(cls, name) else "%s:\n%s" % (name, (" %s\n" % rec) * n)
    return getattr(_lib, cls)(text)[name]


def components(cls, name):
    """The names of the components of one record of field ``name`` of class ``cls``, in the order
    they are written (restated by hand from the file formats, spelt as the class spells them)."""
    low = name.lower()
    if cls == "PdiffIndex":
        h = "SHA256" if "sha256" in low else "SHA1"
        return [h, "size"] + ([] if low.endswith("-current") else
                              ["filename"] if low.endswith("-download") else ["date"])
    if low == "files":
        return ["md5sum", "size", "section", "priority", "name"] if cls == "Changes" else ["md5sum", "size", "name"]
    if cls == "Release":
        return [low, "size", "name"]
    return [low.split("-", 1)[1], "size", "name"]          # Checksums-Sha1 -> sha1, Checksums-Md5 -> md5


# ------------------------------------------------------------------------------------------
# a paragraph parsed from a given text: the text, the input form it is handed over in, the reader

SRC_FORMS = ["str", "bytes", "StringIO", "BytesIO", "text-file", "text-file-untranslated", "lines+nl",
             "lines", "bytes-lines", "iterator"]
SRC_READERS = ["ctor", "iter"]


def _split_keep_lf(text):
    """The lines of ``text`` as iterating over a binary file gives them: cut after every LF."""
    parts = text.split("\n")
    out = [p + "\n" for p in parts[:-1]]
    if parts[-1] != "":
        out.append(parts[-1])
    return out


def source_object(text, form):
    raw = text.encode("utf-8")
    if form == "str":
        return text
    if form == "bytes":
        return raw
    if form == "StringIO":                   # (no newline translation: lines end at LF only)
        return io.StringIO(text)
    if form == "BytesIO":
        return io.BytesIO(raw)
    if form == "text-file":                  # a file opened in text mode: CR LF and CR arrive as LF
        return io.TextIOWrapper(io.BytesIO(raw), encoding="utf-8")
    if form == "text-file-untranslated":     # open(..., newline=''): lines end at LF, CR LF and CR
        return io.TextIOWrapper(io.BytesIO(raw), encoding="utf-8", newline="")
    if form == "lines+nl":
        return _split_keep_lf(text)
    if form == "lines":                      # split at LF, terminators dropped (a CR stays)
        parts = text.split("\n")
        return parts[:-1] if parts[-1] == "" else parts
    if form == "bytes-lines":
        return [l.encode("utf-8") for l in _split_keep_lf(text)]
    if form == "iterator":
        return iter(_split_keep_lf(text))
    raise AssertionError(form)


def src_ok(src):
    return (isinstance(src, dict) and in_domain(src.get("text")) and src.get("form") in SRC_FORMS
            and src.get("reader", "ctor") in SRC_READERS and isinstance(src.get("index", 0), int))


def parse_source(src, cls):
    """The paragraph of class ``cls`` the library hands out for the text, or a str saying why there
    is none (the parser refused the text with ValueError, or found no paragraph in it)."""
    klass = getattr(_lib, cls)
    obj = source_object(src["text"], src["form"])
    try:
        if src.get("reader", "ctor") == "ctor":
            return klass(obj)
        got = list(klass.iter_paragraphs(obj, use_apt_pkg=False))
    except ValueError:
        return "source-text-refused-by-parser"
    if not got:
        return "source-text-holds-no-paragraph"
    return got[src.get("index", 0) % len(got)]


def render(fields, eols, final=True):
    """The text of a paragraph, written by hand ("Name: first line", continuation lines as they
    are), line i ended by eols[i % len(eols)]; the last line unterminated unless ``final``."""
    lines = []
    for n, v in fields:
        val = G.value_string(v)
        entry = "%s:%s" % (n, val) if (not val or val[0] == "\n") else "%s: %s" % (n, val)
        lines.extend(entry.split("\n"))
    out = ""
    for i, l in enumerate(lines):
        out += l + (eols[i % len(eols)] if (final or i < len(lines) - 1) else "")
    return out


def check(case):
    if isinstance(case, dict) and case.get("kind") == "records":
        return check_records(case)
    if not (isinstance(case, dict) and name_ok(case.get("key"))
            and in_domain(case.get("value")) and isinstance(case.get("cls", "Deb822"), str)
            and case.get("cls", "Deb822") in STRUCTURED and isinstance(case.get("route", "setitem"), str)
            and case.get("route", "setitem") in ALL_ROUTES
            and isinstance(case.get("srccls", "dict"), str) and case.get("srccls", "dict") in SRC_CLASSES
            and case.get("pre", "none") in PRE and case.get("dump", "dump") in DUMPERS
            and steps_ok(case.get("then", []))):
        return (False, ("invalid-or-out-of-domain-case-skipped",))
    origin = case.get("origin", "new")
    from_text = origin == "text"
    if not (src_ok(case.get("src")) if from_text else fields_ok(case.get("fields"))):
        return (False, ("invalid-or-out-of-domain-case-skipped",))
    key, value = case["key"], case["value"]
    cls = effective_class(case.get("cls", "Deb822"), origin)
    own = STRUCTURED_LOWER[cls]
    # a field whose value is a list of records in this class: a plain string assigned to it is
    # judged by what can be read back (see the module docstring)
    record_key = key.lower() in own

    warm_up()
    elsewhere = any(key.lower() in STRUCTURED_LOWER[c] for c in CLASSES)
    if elsewhere:
        warm_up_key(cls, key)

    if from_text:
        src = case["src"]
        d = parse_source(src, cls)
        if isinstance(d, str):           # no paragraph to assign to
            return (False, ("origin:text", d, "src-form:" + src["form"]))
        names_before = list(d.keys())
        if not all(name_ok(n) for n in names_before):
            # e.g. a line "CR CR #X: y" of a file gives a field called "#X": not a field name, and
            # what the parser makes of such lines is not this property's business
            return (False, ("origin:text", "parsed-field-name-outside-policy-skipped"))
        if any(n.lower() in own for n in names_before):
            # records parsed from a generated text: their content is not this property's business
            return (False, ("origin:text", "record-field-in-source-text-skipped"))
    else:
        fields = case["fields"]
        if origin in ("copy", "mapping") and any(f[0].lower() in own for f in fields):
            # copy() / construction from a paragraph that holds records is another matter (it
            # fails in the unchanged library - not an assignment, not judged here)
            origin = "new"
        d = make_paragraph(fields, origin, cls)
        names_before = [f[0] for f in fields]
    if type(d).__name__ != cls:      # the table above would be the wrong one for this object
        return (False, ("origin-gave-another-class-skipped",))
    before = [[k, v] for k, v in d.items()]
    lower = [n.lower() for n in names_before]
    if key.lower() in lower:
        pos = lower.index(key.lower())
        where = ("only" if len(lower) == 1 else "first" if pos == 0 else
                 "last" if pos == len(lower) - 1 else "middle")
        target = "existing-%s%s" % (where, "" if key == names_before[pos] else "-othercase")
        expect_lower = lower
    else:
        target = "new-key"
        expect_lower = lower + [key.lower()]
    route = effective_route(case.get("route", "setitem"), key, target == "new-key", record_key)
    if record_key and route in MERGE_ROUTES:
        route = "setitem"                # combining records with a string is not an assignment
    how = "d[%r] = %r" % (key, value) if route == "setitem" else "%s of %r: %r" % (route, key, value)
    pre, dumper, steps = case.get("pre", "none"), case.get("dump", "dump"), case.get("then", [])
    srcmap = srccls = None
    if route in MAP_ROUTES:
        srccls = effective_srccls(case.get("srccls", "dict"), route, cls)
        if route == "ctor":
            # the mapping holds every field of the paragraph (a record field: the text of its
            # records) and, in the place of the field assigned to (or at the end), the value
            pairs = [[k, v if isinstance(v, str) else records_text(cls, k)] for k, v in before]
            if target == "new-key":
                pairs.append([key, value])
            else:
                pairs[pos] = [names_before[pos], value]
            how = "%s(%s holding %s)" % (cls, srccls, short(pairs))
        else:
            pairs = [[key, value]]
            how = "%s with a %s holding %r: %r" % (route, srccls, key, value)
        srcmap = build_source(srccls, pairs)
    if pre != "none":
        how = "%s first; %s" % (pre, how)
    if dumper != "dump":
        how = "%s; text by %s" % (how, dumper)
    if cls != "Deb822":
        how = "%s paragraph, %s" % (cls, how)
    if from_text:
        how = "paragraph parsed (%s, %s) from %s; %s" % (src["form"], src.get("reader", "ctor"),
                                                          short(src["text"]), how)
    # merge_fields on a field the paragraph has: if that field is empty the merge with the other
    # mapping's value is that value; otherwise the two are combined, and the value the paragraph
    # ends up with is read from the paragraph itself and judged (no model of the combining)
    existing = d.get(key) if target != "new-key" else None
    observed = route in MERGE_ROUTES and isinstance(existing, str) and existing != ""

    verdict = rule(value)
    labels = ["target:" + target, "origin:" + str(origin), "class:" + cls, "route:" + route]
    if srccls is not None:
        labels.append("source-class:" + srccls)
        if srcmap is None:
            # (that class refused the value on the way in - itself an assignment, made by other cases)
            labels.append("source-class-cannot-hold-the-value")
            return (False, labels)
        if srccls in STRUCTURED and key.lower() in STRUCTURED_LOWER[srccls]:
            labels.append("source-holds-text-in-its-record-field")
    if pre != "none":
        labels.append("dumped-before:" + pre)
    if dumper != "dump":
        labels.append("dumper:" + dumper)
    if observed:
        labels.append("merge-with-nonempty-field:stored-value-judged")
    if elsewhere:
        labels.append("name-carries-records-in-another-class")
    if "\r" in value:
        labels.append("cr-present")
    if record_key:
        labels.append("string-for-record-field:" + ("present" if target != "new-key" else "absent"))
    if from_text:
        text0 = src["text"]
        labels.append("src-form:" + src["form"])
        labels.append("src-reader:" + src.get("reader", "ctor"))
        if "\r\n" in text0:
            labels.append("src-crlf")
        if any(ch == "\r" and text0[i + 1:i + 2] != "\n" for i, ch in enumerate(text0)):
            labels.append("src-cr-not-before-lf")
        if any(isinstance(v, str) and "\r" in v for _k, v in before):
            labels.append("parsed-value-holds-cr")
    if any(isinstance(v, str) and ("\n" in v or "\r" in v) for k, v in before if k.lower() != key.lower()):
        labels.append("multiline-neighbour")
    if any(n.lower() in own for n in names_before if n.lower() != key.lower()):
        labels.append("record-field-neighbour")

    # a dump before the step under test: of the paragraph, and of the source if it is a paragraph
    # (one that holds a text in a record field of its class cannot be written: not asked)
    pre_text = dump_by(d, pre) if pre != "none" else None
    if pre != "none" and hasattr(srcmap, "dump"):
        try:
            dump_by(srcmap, pre)
        except Exception:
            if not any(k.lower() in STRUCTURED_LOWER.get(srccls, ()) for k, _v in pairs):
                raise
            labels.append("source-dump-refused")

    def done(nontrivial):
        later_dumps(d, steps, cls, how, labels)
        return (nontrivial, labels)

    built = None
    try:
        if route == "ctor":
            built = getattr(_lib, cls)(srcmap)
        elif route == "update-map":
            d.update(srcmap)
        elif route == "merge-map":
            d.merge_fields(key, srcmap)
        else:
            assign(d, key, value, route)
        accepted = True
    except ValueError:
        accepted = False
    except TypeError as e:
        # constructing from a mapping: the unchanged library reports the ValueError of the refused
        # assignment as a TypeError from its error path; no object exists, nothing can be written
        if route != "ctor":
            raise Violation("raised-not-ValueError:TypeError", "%s raised TypeError(%s)" % (how, short(str(e))))
        accepted = False
        labels.append("construction-refused-with-TypeError")
    except Exception as e:      # "rejected with ValueError": no other exception is a rejection
        raise Violation("raised-not-ValueError:" + type(e).__name__,
                        "%s raised %s(%s); the rule says %s" % (
                            how, type(e).__name__, short(str(e)),
                            "the merged value decides" if observed else
                            "accept" if verdict is None else "reject with ValueError (%s)" % verdict))

    if not accepted:
        after = [[k, v] for k, v in d.items()]
        if after != before:
            raise Violation("rejected-but-state-changed",
                            "%s raised ValueError but items went from %s to %s"
                            % (how, short(before), short(after)))
        if pre_text is not None:
            again = dump_by(d, pre)
            if again != pre_text:
                raise Violation("rejected-but-dump-changed",
                                "%s was refused but the text went from %s to %s"
                                % (how, short(pre_text), short(again)))
        if record_key:
            # a string is not what such a field holds: refusing it, whatever it looks like, is fine
            labels.append("rejected:string-for-record-field")
            return done(True)
        if observed:
            # combining two non-empty values may be refused for reasons of its own (a single-line
            # with a multi-line value) or give an invalid value; either way a rejection is allowed
            labels.append("rejected:merge-with-nonempty-field")
            return done(True)
        # The statement only says which values MUST be rejected.  That a value is accepted is
        # promised elsewhere (C02) for first line + continuation lines that start with a blank and
        # contain non-blank text; for other values (whitespace-only continuation lines, CR used as
        # a line boundary) a stricter validator would still satisfy this property.
        plain = [l for l in value.split("\n")]
        c02_domain = "\r" not in value and all(
            l[:1] in (" ", "\t") and l.strip(" \t") != "" for l in plain[1:])
        if verdict is None and not c02_domain:
            labels.append("rejected-outside-c02-domain")
            return done(True)
        if verdict is None:
            raise Violation("rejected-valid-value",
                            "%s raised ValueError although it does not end in a newline and every "
                            "continuation line starts with a blank" % how)
        labels.append("rejected:" + verdict)
        return done(True)

    if built is not None:
        if type(built).__name__ != cls:
            raise Violation("constructed-another-class", "%s gave a %s" % (how, type(built).__name__))
        d = built
    names = list(d.keys())
    if record_key and isinstance(d.get(key), str):
        # accepted - but the paragraph may be impossible to write: then nothing is read back
        try:
            text = dump_by(d, dumper)
        except Exception as e:
            labels.append("string-for-record-field:dump-refused:" + type(e).__name__)
            return done(True)
        labels.append("string-for-record-field:dumped")
    else:
        text = dump_by(d, dumper)
    if not isinstance(text, str):
        raise Violation("dump-not-a-string", "after %s dump() gave %s" % (how, short(text)))
    if observed:
        stored = d[key]
        if not isinstance(stored, str):
            raise Violation("merged-value-not-a-string", "after %s the field holds %s" % (how, short(stored)))
        how = "%s (field was %r, is now %r)" % (how, existing, stored)
        value = stored
        verdict = rule(value)
    blank_cont = has_blank_continuation(value)
    # "whenever no continuation line is blank": in no field of the paragraph (a paragraph parsed
    # from a text may hold such lines in other fields)
    any_blank_cont = blank_cont or any(isinstance(v, str) and has_blank_continuation(v) for v in d.values())
    settings = [("wsp-off", WSP_OFF)]
    if not any_blank_cont:
        settings.append(("default", None))
    bad = None
    forms = _forms(text)
    # a string held by a record field is not in the class's record syntax: the own-class readers,
    # which take such a field apart, are not asked
    for rname, read in _readers(cls, generic_only=record_key and isinstance(d.get(key), str)):
        for sname, strict in settings:
            for fname, make in forms:
                try:
                    got = read(make(), None if strict is None else dict(strict))
                except ValueError as e:          # the parser refusing the dump: no paragraph at all
                    got, sig, why = None, "reread-raised", "ValueError(%s)" % e
                else:
                    sig, why = _classify(got, names)
                if sig and bad is None:
                    bad = (sig if rname == "Deb822.iter_paragraphs" else sig + "@own-class-reader",
                           "dump %s re-read by %s from %s (%s) gives %s: %s; expected one paragraph with %r"
                           % (short(text), rname, fname, sname, short(got), why, names))

    if verdict is not None:
        raise Violation("accepted-invalid:" + verdict,
                        "%s was accepted (%s); %s" % (
                            how, verdict, bad[1] if bad else "dump is %s" % short(text)))
    if [n.lower() for n in names] != expect_lower:
        raise Violation("object-keys-unexpected", "after %s keys are %r, expected (ignoring case) %r"
                        % (how, names, expect_lower))
    if bad:
        raise Violation(bad[0], "%s accepted; %s" % (how, bad[1]))

    multiline = ("\n" in value) or ("\r" in value)
    labels.append("accepted-multiline" if multiline else "accepted-single-line")
    if blank_cont:
        labels.append("accepted-blank-continuation")
    if value[:1] in ("\n", "\r") or (multiline and split_lines(value)[0].strip(" \t") == ""):
        labels.append("accepted-empty-first-line")
    if "PGP" in value:
        labels.append("pgp-armor-lookalike")
    if any(":" in l for l in split_lines(value)[1:]):
        labels.append("accepted-colon-in-continuation")
    return done(multiline or record_key or bool(steps) or (from_text and "\r" in case["src"]["text"]))


# ------------------------------------------------------------------------------------------
# a list of records assigned to a record field: one component of one record holds the string

REC_TYPES = ["dict", "Deb822Dict", "parsed"]
REC_ROUTES = ["setitem", "update-dict", "update-Deb822Dict", "update-pairs", "update-kwargs", "setdefault",
              "mutate", "ctor-own", "ctor-dict", "copy", "update-own"]
# the paragraph is constructed from a mapping that holds the records: a paragraph of its own class
# (also by copy()) or a dict
REC_CTOR_ROUTES = ("ctor-own", "ctor-dict", "copy")
REC_PLACES = ["absent", "first", "middle", "last"]
REC_SIZES = ["apt-ftparchive", "dak"]
REFUSAL = (ValueError, TypeError)


def _plain(v):
    """A value of the paragraph as plain data (records are mutable: a snapshot must not share them)."""
    if isinstance(v, str):
        return v
    if hasattr(v, "items"):
        return [[k, str(x)] for k, x in v.items()]
    if isinstance(v, list):
        return [_plain(r) for r in v]
    return repr(v)


def _snap(d):
    return [[k, _plain(v)] for k, v in d.items()]


def _good_records(cls, name, n, rtype):
    """``n`` well-formed records of the field (one mapping for a single-record field), as plain
    dicts, as Deb822Dicts built from pairs, or as the parser hands them out."""
    comps = components(cls, name)
    if rtype == "parsed":
        return records(cls, name, n)
    vals = _record_line(cls, name).split()
    if rtype == "dict":
        recs = [dict(zip(comps, vals)) for _ in range(n)]
    else:
        recs = [Deb822Dict(list(zip(comps, vals))) for _ in range(n)]
    return recs[0] if single_record(cls, name) else recs


def check_records(case):
    """A list of records (a single record for the -Current fields of a pdiff Index) is assigned to
    a record field of the paragraph's class - or a record the paragraph holds is changed in place -
    and one component of one record (more with "also") holds a string of the property's domain.
    EITHER the assignment or ``dump()`` refuses (ValueError / TypeError; a refused assignment
    leaves the paragraph as it was) and nothing is written, OR the text written reads back as one
    paragraph with exactly the paragraph's field names.  Which strings are refused is not asked."""
    cls, key, value = case.get("cls"), case.get("key"), case.get("value")
    if not (isinstance(cls, str) and cls in STRUCTURED and isinstance(key, str)
            and key.lower() in STRUCTURED_LOWER[cls] and in_domain(value) and case.get("pre", "none") in PRE
            and all(isinstance(case.get(k, 0), int) and not isinstance(case.get(k, 0), bool)
                    for k in ("n", "at", "comp"))):
        return (False, ("invalid-or-out-of-domain-case-skipped",))
    also = case.get("also", [])
    if not (isinstance(also, list) and all(
            isinstance(a, list) and len(a) == 3 and isinstance(a[0], int) and isinstance(a[1], int)
            and in_domain(a[2]) for a in also)):
        return (False, ("invalid-or-out-of-domain-case-skipped",))
    canon = [n for n in STRUCTURED[cls] if n.lower() == key.lower()][0]
    comps = components(cls, canon)
    single = single_record(cls, canon)
    place = case.get("place", "absent")
    place = place if place in REC_PLACES else "absent"
    rtype = case.get("rec", "dict")
    rtype = rtype if rtype in REC_TYPES else "dict"
    origin = case.get("origin", "new")
    origin = origin if (origin in ORIGINS and origin not in ("copy", "mapping")) else "new"
    A, K, Z = AKZ
    fields = {"absent": [A, K, Z], "first": [[canon, K[1]], A, Z], "middle": [A, [canon, K[1]], Z],
              "last": [A, Z, [canon, K[1]]]}[place]

    warm_up()
    d = make_paragraph(fields, origin, cls)
    if type(d).__name__ != cls:
        return (False, ("origin-gave-another-class-skipped",))
    labels = ["records", "class:" + cls, "origin:" + origin, "place:" + place]
    sizes = case.get("sizes")
    if cls == "Release" and sizes in REC_SIZES:
        d.size_field_behavior = sizes            # documented: how wide the size column is written
        labels.append("sizes:" + sizes)
    names_before = [f[0] for f in fields]
    expect_lower = [n.lower() for n in names_before] + ([key.lower()] if place == "absent" else [])

    route = case.get("route", "setitem")
    route = route if route in REC_ROUTES else "setitem"
    if route == "mutate" and place == "absent":
        route = "setitem"
    route = effective_route(route, key, place == "absent")

    hostile = [[case.get("at", 0), case.get("comp", 0), value]] + also
    if route == "mutate":
        held = d[key]
        n = 1 if single else len(held)
    else:
        n = 1 if single else min(max(case.get("n", 1), 1), 4)
        held = _good_records(cls, canon, n, rtype)
        labels.append("rec-type:" + rtype)
    what = []
    for at, ci, v in hostile:
        what.append("record %d of %d, component %r = %r" % (at % n, n, comps[ci % len(comps)], v))
        labels.append("comp:" + comps[ci % len(comps)])
        labels.append("at:" + ("only" if n == 1 else "first" if at % n == 0 else
                               "last" if at % n == n - 1 else "middle"))
    how = "%s paragraph (%s), field %r %s; %s" % (cls, ", ".join(names_before), key, route, "; ".join(what))
    labels.append("route:" + route)
    if len(hostile) > 1:
        labels.append("several-components")
    boundary = any("\n" in v or "\r" in v for _a, _c, v in hostile)

    before = _snap(d)
    built = None
    klass = getattr(_lib, cls)
    # constructing a paragraph from a mapping that holds records: any of these refusals leaves no
    # object behind (the unchanged library refuses every such construction with AttributeError)
    refusal = REFUSAL + ((AttributeError,) if route in REC_CTOR_ROUTES else ())
    try:
        for at, ci, v in hostile:
            (held if single else held[at % n])[comps[ci % len(comps)]] = v
        if route in REC_CTOR_ROUTES:
            source = klass()
            for fname in list(d.keys()):
                source[fname] = d[fname]
            source[key] = held
            if case.get("pre", "none") != "none":
                labels.append("dumped-before:" + case["pre"])
                try:
                    dump_by(source, case["pre"])
                except REFUSAL:
                    labels.append("source-dump-refused")
            built = (source.copy() if route == "copy" else
                     klass(source) if route == "ctor-own" else klass(dict(source.items())))
        elif route == "update-own":
            source = klass()
            source[key] = held
            d.update(source)
        elif route != "mutate":
            assign(d, key, held, route)
    except refusal as e:
        if route != "mutate" and _snap(d) != before:
            raise Violation("records:rejected-but-state-changed",
                            "%s raised %s but items went from %s to %s"
                            % (how, type(e).__name__, short(before), short(_snap(d))))
        labels.append("records:assignment-refused:" + type(e).__name__)
        return (True, labels)

    if built is not None:
        if type(built).__name__ != cls:
            raise Violation("constructed-another-class", "%s gave a %s" % (how, type(built).__name__))
        d = built
    names = list(d.keys())
    try:
        text = d.dump()
    except REFUSAL as e:
        # nothing is written, nothing can be read back
        labels.append("records:dump-refused:" + type(e).__name__)
        return (True, labels)
    if not isinstance(text, str):
        raise Violation("dump-not-a-string", "after %s dump() gave %s" % (how, short(text)))
    if [x.lower() for x in names] != expect_lower:
        raise Violation("records:object-keys-unexpected", "after %s keys are %r, expected (ignoring case) %r"
                        % (how, names, expect_lower))
    settings = [("wsp-off", WSP_OFF)]
    # "whenever no continuation line is blank": a record whose components are all blank is
    # written as a whitespace-only line
    if not any(l.strip(" \t") == "" for l in split_lines(text)):
        settings.append(("default", None))
    else:
        labels.append("records:blank-line-written")
    for rname, read in _readers(cls):
        for sname, strict in settings:
            for fname, make in _forms(text):
                try:
                    got = read(make(), None if strict is None else dict(strict))
                except ValueError as e:
                    got, sig, why = None, "reread-raised", "ValueError(%s)" % e
                else:
                    sig, why = _classify(got, names)
                if sig:
                    raise Violation("records:" + sig + ("" if rname == "Deb822.iter_paragraphs" else "@own-class-reader"),
                                    "%s accepted; dump %s re-read by %s from %s (%s) gives %s: %s; expected "
                                    "one paragraph with %r" % (how, short(text), rname, fname, sname,
                                                               short(got), why, names))
    labels.append("records:written-and-read-back" + (":line-boundary-in-component" if boundary else ""))
    return (boundary or any(v.strip(" \t") == "" or ":" in v or v[:1] in "#-" for _a, _c, v in hostile), labels)


# ------------------------------------------------------------------------------------------
# generators

# characters and tokens that mean something to the text-formatting machinery of the language the
# library is written in (str.format, %-formatting, string.Template, escapes) and nothing to the
# control-file format: substitution variables are everyday content of control files
FORMAT_TOKENS = ["{", "}", "{}", "{0}", "${misc:Depends}", "%s", "%(x)s", "\\", "{x}", "%", "$", "\\n"]

ENUM_CHARS = ["a", "B", "0", ":", "#", "-", ".", " ", "\t", "\r", "\n", "é"]
AKZ = [["A", ["1", []]], ["K", ["2", [" 2b"]]], ["Z", ["3", ["\t3b", " 3c: d"]]]]


def enum_cases(maxlen):
    def gen():
        k = 0
        for n in range(0, maxlen + 1):
            for seq in itertools.product(ENUM_CHARS, repeat=n):
                v = "".join(seq)
                k += 1
                # the origin of the paragraph object cycles (coprime with the alphabet size), and
                # every value of up to 2 characters meets every origin
                for o in (ORIGINS if n <= 2 else [ORIGINS[k % len(ORIGINS)]]):
                    yield {"fields": AKZ, "key": "K", "value": v, "origin": o}
                if n < maxlen:
                    yield {"fields": AKZ, "key": "A", "value": v, "origin": ORIGINS[(k + 3) % len(ORIGINS)]}
                    yield {"fields": AKZ, "key": "Z", "value": v, "origin": ORIGINS[(k + 5) % len(ORIGINS)]}
                    yield {"fields": AKZ, "key": "New", "value": v, "origin": ORIGINS[(k + 7) % len(ORIGINS)]}
    return gen


FORMAT_ALPHABET = ["a", " ", "\n", ":"] + FORMAT_TOKENS[:8]


def enum_format_cases(maxlen):
    """Every sequence of 0..maxlen tokens over FORMAT_ALPHABET (a letter, SPACE, LF, ':' and the
    brace / percent / backslash tokens), assigned to an existing and to a new field; route, class
    and origin cycle."""
    def gen():
        k = 0
        for n in range(0, maxlen + 1):
            for seq in itertools.product(FORMAT_ALPHABET, repeat=n):
                v = "".join(seq)
                k += 1
                # 81 consecutive values meet every (route, class) pair; 11 origins are coprime with that
                yield {"fields": AKZ, "key": "K", "value": v, "origin": ORIGINS[k % len(ORIGINS)],
                       "cls": CLASSES[(k // len(ROUTES)) % len(CLASSES)], "route": ROUTES[k % len(ROUTES)]}
                yield {"fields": AKZ, "key": "New", "value": v, "origin": ORIGINS[(k + 5) % len(ORIGINS)],
                       "cls": CLASSES[(k // len(ROUTES) + 4) % len(CLASSES)],
                       "route": ROUTES[(k + 3) % len(ROUTES)]}
    return gen


def _othercase(n):
    s = n.swapcase()
    return s if s != n else n          # names without letters have no other spelling


FOREIGN_PAIRS = [(c, n) for c in CLASSES for n in foreign_names(c)]


AKZ_EMPTY_K = [AKZ[0], ["K", ["", []]], AKZ[2]]


def _akz(middle):
    return [AKZ[0], [middle, AKZ[1][1]], AKZ[2]]


def enum_route_cases(maxlen):
    """The assignment *route* and the *class* of the paragraph as dimensions of the enumeration."""
    def gen():
        k = 0
        for n in range(0, maxlen + 1):
            for seq in itertools.product(ENUM_CHARS, repeat=n):
                v = "".join(seq)
                k += 1
                # every value meets every route (classes and origins cycle, coprime with 12 and 7)
                for r, route in enumerate(ROUTES):
                    yield {"fields": AKZ, "key": "New" if route == "setdefault" else "K", "value": v,
                           "origin": ORIGINS[(k + r) % len(ORIGINS)], "cls": CLASSES[(k + 2 * r) % len(CLASSES)],
                           "route": route}
                    if route in MERGE_ROUTES:
                        # merge_fields also for a field the paragraph lacks and for one it has, empty
                        yield {"fields": AKZ, "key": "New", "value": v,
                               "origin": ORIGINS[(k + r + 2) % len(ORIGINS)],
                               "cls": CLASSES[(k + 2 * r + 4) % len(CLASSES)], "route": route}
                        yield {"fields": AKZ_EMPTY_K, "key": "K" if k % 2 else "k", "value": v,
                               "origin": ORIGINS[(k + r + 6) % len(ORIGINS)],
                               "cls": CLASSES[(k + 2 * r + 7) % len(CLASSES)], "route": route}
                        # ... and for a single-line one ("K" above is multi-line)
                        yield {"fields": AKZ, "key": "A", "value": v,
                               "origin": ORIGINS[(k + r + 8) % len(ORIGINS)],
                               "cls": CLASSES[(k + 2 * r + 1) % len(CLASSES)], "route": route}
                # ... and one (class, name that carries records in another class) pair, the name
                # being the middle field or a new one
                c, name = FOREIGN_PAIRS[(k * 5) % len(FOREIGN_PAIRS)]
                yield {"fields": _akz(name) if k % 2 else AKZ, "key": name, "value": v,
                       "origin": ORIGINS[(k + 1) % len(ORIGINS)], "cls": c, "route": ROUTES[k % len(ROUTES)]}
                # every value of up to 1 character meets every such pair
                if n <= 1:
                    for j, (c, name) in enumerate(FOREIGN_PAIRS):
                        yield {"fields": _akz(name), "key": name, "value": v,
                               "origin": ORIGINS[(k + j) % len(ORIGINS)], "cls": c, "route": "setitem"}
                        yield {"fields": AKZ, "key": _othercase(name), "value": v,
                               "origin": ORIGINS[(k + j + 4) % len(ORIGINS)], "cls": c,
                               "route": ROUTES[(k + j) % len(ROUTES)]}
    return gen


# (class of the paragraph, name that is ordinary there, class in which that name carries records -
# a paragraph of which keeps a text under it unlooked at)
FOREIGN_TRIPLES = [(c, n, sc) for c, n in FOREIGN_PAIRS for sc in CLASSES if n.lower() in STRUCTURED_LOWER[sc]]
SPLITTING = ["x\n", "x\n\nB: y", "\nB: y", "x\n \n\nB: y", "x\r\rB: y"]
SAMPLE_VALUES = ["v", "v\n w", "v\n\nB: x", "v\nB: x", ""]


def _then(j, n=1):
    """``n`` steps between dumps, ops / index / dumper cycling with ``j``."""
    return [[STEP_OPS[(j + 4 * i) % len(STEP_OPS)], (j // 2 + i) % 4, DUMPERS[(j // 3 + 2 * i) % len(DUMPERS)]]
            for i in range(n)]


def enum_source_class_cases(maxlen):
    """The class of the mapping as a dimension: every string of 0..maxlen characters x every class
    of source mapping x {construction from it, update() with it, merge_fields() with it}; the
    field assigned to, the class of the paragraph, its origin, a dump beforehand and the steps
    afterwards cycle.  And names that carry records in the *source's* class (which keeps a text
    there as it is) and are ordinary in the paragraph's class."""
    def gen():
        k = 0
        for n in range(0, maxlen + 1):
            for seq in itertools.product(ENUM_CHARS, repeat=n):
                v = "".join(seq)
                k += 1
                for si, sc in enumerate(SRC_CLASSES):
                    for r, route in enumerate(MAP_ROUTES):
                        j = k + si + 5 * r
                        if route == "merge-map":
                            fields, key = [(AKZ, "New"), (AKZ_EMPTY_K, "K"), (AKZ, "A"), (AKZ_EMPTY_K, "k")][j % 4]
                        else:
                            fields, key = AKZ, ["K", "New", "A", "k", "Z"][j % 5]
                        case = {"fields": fields, "key": key, "value": v, "origin": ORIGINS[(j // 2) % len(ORIGINS)],
                                "cls": CLASSES[(k + 2 * si + r) % len(CLASSES)], "route": route, "srccls": sc,
                                "pre": PRE[(j // 3) % len(PRE)]}
                        if j % 4 == 0:
                            case["then"] = _then(j)
                        yield case
                c, name, sc = FOREIGN_TRIPLES[(k * 7) % len(FOREIGN_TRIPLES)]
                for r, route in enumerate(MAP_ROUTES):
                    yield {"fields": _akz(name) if (k + r) % 2 else AKZ, "key": name, "value": v,
                           "origin": ORIGINS[(k + r) % len(ORIGINS)], "cls": c, "route": route, "srccls": sc,
                           "pre": PRE[(k + r) % len(PRE)]}
                # every value of up to 1 character, and a few that would split the paragraph,
                # meet every such triple
                if n <= 1:
                    for j, (c, name, sc) in enumerate(FOREIGN_TRIPLES):
                        for i, val in enumerate([v] + (SPLITTING if n == 0 else [])):
                            yield {"fields": _akz(name) if (k + j + i) % 2 else AKZ,
                                   "key": name if (k + j) % 3 else _othercase(name), "value": val,
                                   "origin": ORIGINS[(k + j) % len(ORIGINS)], "cls": c,
                                   "route": MAP_ROUTES[0 if i else (k + j) % 3], "srccls": sc,
                                   "pre": PRE[(k + j + i) % len(PRE)]}
    return gen


def enum_later_dump_cases(full):
    """A dump before the step under test, and steps that assign nothing between two dumps: every
    way of getting the text beforehand (or none) x every step (del, del in another spelling, pop,
    pop with default, popitem, clear, order_last, order_first, sort_fields) x how the text is
    obtained after the assignment x how it is obtained after the step, for an accepted single-line,
    an accepted multi-line, two refused and the empty value; every ordered pair of steps; which
    field the step names, the class, the route, the source class and the origin cycle
    (``full``: every case in three classes)."""
    def gen():
        j = 0
        for pre in PRE:
            for op in STEP_OPS:
                for d1 in DUMPERS:
                    for d2 in DUMPERS:
                        for vi, v in enumerate(SAMPLE_VALUES):
                            for rep in range(3 if full else 1):
                                j += 1
                                yield {"fields": AKZ, "key": ["K", "New", "Z", "a"][(j // 5) % 4], "value": v,
                                       "origin": ORIGINS[j % len(ORIGINS)], "cls": CLASSES[(j // 7 + 3 * rep) % len(CLASSES)],
                                       "route": ALL_ROUTES[(j // 3) % len(ALL_ROUTES)],
                                       "srccls": SRC_CLASSES[(j // 2) % len(SRC_CLASSES)],
                                       "pre": pre, "dump": d1, "then": [[op, (j // 4) % 4, d2]]}
        for pre in PRE:
            for op1 in STEP_OPS:
                for op2 in STEP_OPS:
                    for vi, v in enumerate(SAMPLE_VALUES[:3]):
                        j += 1
                        yield {"fields": AKZ, "key": ["K", "New", "Z", "a"][(j // 3) % 4], "value": v,
                               "origin": ORIGINS[j % len(ORIGINS)], "cls": CLASSES[(j // 5) % len(CLASSES)],
                               "route": ALL_ROUTES[(j // 3) % len(ALL_ROUTES)],
                               "srccls": SRC_CLASSES[(j // 2) % len(SRC_CLASSES)], "pre": pre,
                               "dump": DUMPERS[j % len(DUMPERS)],
                               "then": [[op1, j % 4, DUMPERS[(j // 2) % len(DUMPERS)]],
                                        [op2, (j // 4) % 3, DUMPERS[(j // 3) % len(DUMPERS)]]]}
        # ... and with the paragraph parsed from a text, and a record field of the own class among
        # the fields (the step may name it)
        for op in STEP_OPS:
            for d2 in DUMPERS:
                for f, form in enumerate(SRC_FORMS):
                    j += 1
                    yield {"origin": "text", "src": {"text": render(AKZ, SRC_EOLS[j % 2], final=bool(j % 3)),
                                                     "form": form, "reader": SRC_READERS[(j // 2) % 2]},
                           "key": ["K", "New", "A"][j % 3], "value": SAMPLE_VALUES[j % len(SAMPLE_VALUES)],
                           "cls": CLASSES[(j // 3) % len(CLASSES)], "route": ALL_ROUTES[(j // 2) % len(ALL_ROUTES)],
                           "srccls": SRC_CLASSES[j % len(SRC_CLASSES)], "pre": PRE[(j // 2) % len(PRE)],
                           "then": [[op, j % 4, d2]]}
                for c, name in OWN_PAIRS[:: 1 if full else 3]:
                    j += 1
                    yield {"fields": _akz(name), "key": ["A", "New", name, "Z"][j % 4],
                           "value": SAMPLE_VALUES[j % len(SAMPLE_VALUES)], "origin": ORIGINS[j % len(ORIGINS)],
                           "cls": c, "route": ALL_ROUTES[(j // 2) % len(ALL_ROUTES)],
                           "srccls": SRC_CLASSES[j % len(SRC_CLASSES)], "pre": PRE[(j // 2) % len(PRE)],
                           "then": [[op, 1 if j % 3 else 0, d2]]}
    return gen


OWN_PAIRS = [(c, n) for c in CLASSES for n in STRUCTURED[c]]


def enum_record_cases(maxlen):
    """A plain string assigned to a field that carries records in the paragraph's own class: every
    string of 0..maxlen characters x every (class, record field) pair; the field absent before,
    or present with records (as the middle field, or - in another spelling - as the last one)."""
    def gen():
        k = 0
        for n in range(0, maxlen + 1):
            for seq in itertools.product(ENUM_CHARS, repeat=n):
                v = "".join(seq)
                k += 1
                for j, (c, name) in enumerate(OWN_PAIRS):
                    i = k + j
                    state = i % 3
                    if state == 0:
                        fields, key = AKZ, name
                    elif state == 1:
                        fields, key = _akz(name), name
                    else:
                        fields, key = [AKZ[0], AKZ[1], [name, AKZ[2][1]]], _othercase(name)
                    yield {"fields": fields, "key": key, "value": v, "origin": ORIGINS[(i // 3) % len(ORIGINS)],
                           "cls": c, "route": ROUTES[(i // 2) % len(ROUTES)]}
    return gen


SRC_EOLS = [["\n"], ["\r\n"], ["\r\n", "\n"], ["\n", "\r\n"], ["\r"]]


def enum_source_eol_cases(maxlen):
    """The paragraph was parsed from a text: the A,K,Z paragraph written with every line-end style
    (LF, CR LF, alternating either way, CR), with and without a final terminator, handed to the
    parser in every input form; then every string of 0..maxlen characters is assigned."""
    def gen():
        k = 0
        for n in range(0, maxlen + 1):
            for seq in itertools.product(ENUM_CHARS, repeat=n):
                v = "".join(seq)
                k += 1
                for e, eols in enumerate(SRC_EOLS):
                    for f, form in enumerate(SRC_FORMS):
                        j = k + 3 * e + f
                        yield {"origin": "text",
                               "src": {"text": render(AKZ, eols, final=(j % 3 != 0)), "form": form,
                                       "reader": SRC_READERS[(j // 3) % 2]},
                               "key": ["K", "New", "A", "k", "Z"][(k + e) % 5], "value": v,
                               "cls": CLASSES[(k + 2 * f + e) % len(CLASSES)],
                               "route": ROUTES[(2 * k + f + e) % len(ROUTES)]}
    return gen


SRC_LINES = ["A: 1", "K: 2", " 2b", "Z: 3", "\t3b", " 3c: d"]
SRC_SPOTS = [(1, 4), (2, 2), (5, 6)]            # end of "K: 2", inside " 2b", end of the last line
SRC_ASSIGNED = [("A", "v"), ("New", "v\n w"), ("Z", ""), ("New", "v"), ("A", "v\n\tw")]


def enum_source_stray_cases(maxlen):
    """The paragraph was parsed from a text that is the A,K,Z paragraph (LF line ends) with every
    string of 0..maxlen characters inserted at the end of a first line, inside a continuation line
    and at the end of the last line; strings of up to 2 characters meet every input form, longer
    ones one form each.  If the parser hands out a paragraph, an ordinary value is assigned to one
    of its other fields or to a new one."""
    def gen():
        k = 0
        for n in range(0, maxlen + 1):
            for seq in itertools.product(ENUM_CHARS, repeat=n):
                ins = "".join(seq)
                k += 1
                for p, (li, col) in enumerate(SRC_SPOTS):
                    lines = list(SRC_LINES)
                    lines[li] = lines[li][:col] + ins + lines[li][col:]
                    text = "\n".join(lines) + "\n"
                    forms = range(len(SRC_FORMS)) if n <= 2 else [(k + 3 * p) % len(SRC_FORMS)]
                    for f in forms:
                        j = k + p + f
                        key, v = SRC_ASSIGNED[j % len(SRC_ASSIGNED)]
                        yield {"origin": "text",
                               "src": {"text": text, "form": SRC_FORMS[f], "reader": SRC_READERS[(j // 5) % 2]},
                               "key": key, "value": v, "cls": CLASSES[(k + 2 * f) % len(CLASSES)],
                               "route": ROUTES[(k // 2 + f) % len(ROUTES)]}
    return gen


TOKENS = (["a", "b", "Z", "0", "9", ":", "#", " ", " ", "\t", "\r", "\n", "\n", ".", "-", "é", "漢"]
          + FORMAT_TOKENS
          + ["\n ", "\n ", "\n\t", "\n\n", "\r\n", "\r\n ", "\r ", "B: ", "B:", "\nB: ", "\n B: ", "\n#", "\n #",
             "\n.", "\n .", " \n", "\t\n", "\n \n", "\n\t\r", ": ", "\n -----BEGIN PGP SIGNED MESSAGE-----",
             "\n -----BEGIN PGP SIGNATURE-----", "\n -----END PGP SIGNATURE-----", "-----BEGIN PGP SIGNED MESSAGE-----",
             "\n-----BEGIN PGP SIGNED MESSAGE-----", "\n  ", "\n \t "])

token_value = st.lists(st.sampled_from(TOKENS), min_size=0, max_size=14).map("".join)
text_value = st.builds(lambda v: G.value_string(v), G.value)          # always acceptable (C02 domain)
near_valid = st.builds(lambda v, t, w: G.value_string(v)[:w] + t + G.value_string(v)[w:],
                       G.value, st.sampled_from(TOKENS), st.integers(0, 12))
any_value = st.one_of(token_value, token_value, token_value, near_valid, text_value)


def _neighbour_pool():
    """160 fixed paragraphs of 1..4 fields over the boundary first/continuation lines of the C02
    generator (cheap to draw from; one case in five still gets a freshly generated paragraph)."""
    names = G.COMMON_NAMES + ["!x", '"q"', "$", ";semi", "~", "9", "X-y#z", "a.b", "(p)", "_u", "0-1", "@at"]
    pool, k = [], 0
    for size in (1, 2, 3, 4):
        for _ in range(40):
            fields, seen = [], set()
            for i in range(size):
                k += 1
                name = names[(k * 7 + i * 3) % len(names)]
                if name.lower() in seen:
                    name = "%s-%d" % (name, i)
                seen.add(name.lower())
                first = G.SPECIAL_FIRST[(k * 5 + i) % len(G.SPECIAL_FIRST)]
                conts = [G.SPECIAL_CONT[(k * 11 + i * 7 + c * 3) % len(G.SPECIAL_CONT)] for c in range((k + i) % 3)]
                fields.append([name, [first, conts]])
            pool.append(fields)
    return pool


NEIGHBOURS = _neighbour_pool()
paragraph = st.one_of(st.sampled_from(NEIGHBOURS), st.sampled_from(NEIGHBOURS), st.sampled_from(NEIGHBOURS),
                      st.sampled_from(NEIGHBOURS), G.fields(min_size=1, max_size=4))


cls_name = st.one_of(st.just("Deb822"), st.sampled_from(CLASSES))                 # 5/9 plain Deb822
src_eols = st.lists(st.sampled_from(["\n", "\n", "\r\n", "\r\n", "\r"]), min_size=1, max_size=3)
STRAY = ["\r", "\r", "\r\r", "\r ", "\r\t", " \r", "\r\n", "\rB: x", "\rB:", "\r\rB: x", "\r B: x", "\r#"] + TOKENS
route_name = st.one_of(st.just("setitem"), st.sampled_from(ALL_ROUTES), st.sampled_from(ALL_ROUTES))
later_steps = st.lists(st.tuples(st.sampled_from(STEP_OPS), st.integers(0, 3), st.sampled_from(DUMPERS)),
                       min_size=1, max_size=3)


@st.composite
def gen_case(draw):
    fields = draw(paragraph)
    cls = draw(cls_name)
    how = draw(st.sampled_from(["first", "middle", "last", "new", "othercase", "othercase", "elsewhere",
                                "own-record" if STRUCTURED[cls] else "new"]))
    names = [f[0] for f in fields]
    lower = [n.lower() for n in names]
    if how == "first":
        key = names[0]
    elif how == "last":
        key = names[-1]
    elif how == "middle":
        key = names[len(names) // 2]
    elif how == "othercase":
        key = _othercase(names[draw(st.integers(0, len(names) - 1))])
    elif how == "elsewhere":
        # a name that carries records in another class: new, or taking the place of a field
        key = draw(st.sampled_from(foreign_names(cls)))
        if key.lower() not in lower and draw(st.booleans()):
            i = draw(st.integers(0, len(names) - 1))
            fields = [[key if j == i else f[0], f[1]] for j, f in enumerate(fields)]
        if draw(st.booleans()):
            key = _othercase(key)
    elif how == "own-record":
        # a plain string for a field that carries records in this very class: absent before, or
        # holding records in the place of one of the fields
        key = draw(st.sampled_from(STRUCTURED[cls]))
        if draw(st.booleans()):
            i = draw(st.integers(0, len(names) - 1))
            fields = [[key if j == i else f[0], f[1]] for j, f in enumerate(fields)]
        if draw(st.booleans()):
            key = _othercase(key)
    else:
        key = "New-Field"
        if key.lower() in lower:
            key = "New-Field-2"
    case = {"fields": fields, "key": key, "value": draw(any_value), "origin": draw(st.sampled_from(ORIGINS)),
            "cls": cls, "route": draw(route_name), "srccls": draw(st.sampled_from(SRC_CLASSES))}
    if how == "elsewhere" and draw(st.booleans()):
        # the value arrives in a mapping of a class in which this name carries records
        case["srccls"] = draw(st.sampled_from([c for c in CLASSES if key.lower() in STRUCTURED_LOWER[c]]))
        case["route"] = draw(st.sampled_from(MAP_ROUTES))
    if draw(st.booleans()):
        case["pre"] = draw(st.sampled_from(PRE))
    if draw(st.integers(0, 2)) == 0:
        case["dump"] = draw(st.sampled_from(DUMPERS))
    if draw(st.booleans()):
        case["then"] = draw(later_steps)
    if how != "own-record" and draw(st.integers(0, 3)) == 0:
        # the paragraph is parsed from a text instead: these fields, written with a mix of line
        # ends, with up to two tokens dropped in anywhere, handed over in one of the input forms
        text = render(fields, draw(src_eols), draw(st.booleans()))
        for _ in range(draw(st.integers(0, 2))):
            at = draw(st.integers(0, len(text)))
            text = text[:at] + draw(st.sampled_from(STRAY)) + text[at:]
        del case["fields"]
        case["origin"] = "text"
        case["src"] = {"text": text, "form": draw(st.sampled_from(SRC_FORMS)),
                       "reader": draw(st.sampled_from(SRC_READERS)), "index": draw(st.integers(0, 1))}
    return case


def _unique(seq):
    out = []
    for x in seq:
        if x not in out:
            out.append(x)
    return out


REC_POOL = _unique(TOKENS)
REC_COMBOS = [(c, n, i) for c, n in OWN_PAIRS for i in range(len(components(c, n)))]


def enum_record_list_cases(full):
    """A list of three records (one record for a single-record field) assigned to - or changed in
    place in - a record field of the paragraph's class: every (class, record field, component) x
    every token of the value pool, alone and as '7' + token + 'B: x' (position of the record
    cycling; a token holding LF or CR: the latter in the first, the middle and the last record); where the field stands in the paragraph,
    kind of record object, route, origin and (Release) the documented size-column setting cycle.
    ``full``: every string also meets both size settings and every kind of record object."""
    def gen():
        j = 0
        for t in REC_POOL:
            for c, name, ci in REC_COMBOS:
                boundary = "\n" in t or "\r" in t
                for v, ats in ((t, [None]), ("7" + t + "B: x", [0, 1, 2] if boundary else [None])):
                    for at in ats:
                        j += 1
                        base = {"kind": "records", "cls": c, "key": name if j % 5 else _othercase(name),
                                "place": REC_PLACES[(j // 3) % 4], "n": 3 if j % 7 else 1,
                                "at": j % 3 if at is None else at, "comp": ci, "value": v,
                                "rec": REC_TYPES[(j // 2) % 3], "route": REC_ROUTES[(j // 4) % len(REC_ROUTES)],
                                "origin": ORIGINS[(j // 5) % len(ORIGINS)], "sizes": REC_SIZES[(j // 3) % 2]}
                        yield base
                        if full:
                            for r in range(1, 3):
                                yield dict(base, rec=REC_TYPES[((j // 2) + r) % 3],
                                           sizes=REC_SIZES[((j // 3) + r) % 2])
    return gen


@st.composite
def gen_record_case(draw):
    cls, name = draw(st.sampled_from(OWN_PAIRS))
    case = {"kind": "records", "cls": cls, "key": _othercase(name) if draw(st.integers(0, 3)) == 0 else name,
            "place": draw(st.sampled_from(REC_PLACES)), "n": draw(st.integers(1, 3)),
            "at": draw(st.integers(0, 2)), "comp": draw(st.integers(0, 4)), "value": draw(any_value),
            "rec": draw(st.sampled_from(REC_TYPES)), "route": draw(st.sampled_from(REC_ROUTES)),
            "origin": draw(st.sampled_from(ORIGINS)), "sizes": draw(st.sampled_from(REC_SIZES)),
            "pre": draw(st.sampled_from(PRE))}
    if draw(st.integers(0, 2)) == 0:
        case["also"] = draw(st.lists(st.tuples(st.integers(0, 2), st.integers(0, 4), any_value),
                                     min_size=1, max_size=2))
    return case


def sources(tier):
    if tier == "quick":
        return [Enum("values<=4chars", enum_cases(4), EXHAUSTIVE["quick"]),
                Enum("routes-classes<=3chars", enum_route_cases(3), EXHAUSTIVE_ROUTES["quick"]),
                Enum("format-tokens<=3", enum_format_cases(3), EXHAUSTIVE_FORMAT["quick"]),
                Enum("record-fields<=2chars", enum_record_cases(2), EXHAUSTIVE_RECORDS["quick"]),
                Enum("source-line-ends<=2chars", enum_source_eol_cases(2), EXHAUSTIVE_SOURCE["quick"]),
                Enum("source-stray<=3chars", enum_source_stray_cases(3), EXHAUSTIVE_STRAY["quick"]),
                Enum("record-lists", enum_record_list_cases(False), EXHAUSTIVE_RECORD_LISTS["quick"]),
                Enum("source-classes<=2chars", enum_source_class_cases(2), EXHAUSTIVE_SOURCE_CLASSES["quick"]),
                Enum("dump-step-dump", enum_later_dump_cases(False), EXHAUSTIVE_LATER_DUMPS["quick"]),
                Hyp("token-values", gen_case(), 1200, shards=8),
                Hyp("record-list-values", gen_record_case(), 400, shards=2)]
    return [Enum("values<=5chars", enum_cases(5), EXHAUSTIVE["thorough"]),
            Enum("routes-classes<=4chars", enum_route_cases(4), EXHAUSTIVE_ROUTES["thorough"]),
            Enum("format-tokens<=4", enum_format_cases(4), EXHAUSTIVE_FORMAT["thorough"]),
            Enum("record-fields<=3chars", enum_record_cases(3), EXHAUSTIVE_RECORDS["thorough"]),
            Enum("source-line-ends<=3chars", enum_source_eol_cases(3), EXHAUSTIVE_SOURCE["thorough"]),
            Enum("source-stray<=4chars", enum_source_stray_cases(4), EXHAUSTIVE_STRAY["thorough"]),
            Enum("record-lists-full", enum_record_list_cases(True), EXHAUSTIVE_RECORD_LISTS["thorough"]),
            Enum("source-classes<=3chars", enum_source_class_cases(3), EXHAUSTIVE_SOURCE_CLASSES["thorough"]),
            Enum("dump-step-dump-full", enum_later_dump_cases(True), EXHAUSTIVE_LATER_DUMPS["thorough"]),
            Hyp("token-values", gen_case(), 25000, shards=16),
            Hyp("record-list-values", gen_record_case(), 8000, shards=4)]
