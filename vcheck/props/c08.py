"""C08 - an accepted field value can never inject fields or split the paragraph.

case = {"fields": [[name, [first, [cont, ...]]], ...],   the paragraph before the assignment
        "key":    str,                                   field assigned to (existing name, the same
                                                         name in another letter case, or a new name)
        "value":  str}                                   the value tried

The paragraph is built by assignment into an empty ``Deb822`` (neighbour values come from the C02
domain: valid by construction).  Then ``d[key] = value`` is tried and judged:

* rejected  -> must be ValueError, the independent rule below must say "reject", and
               ``list(d.items())`` must be what it was;
* accepted  -> the rule must say "accept"; ``d.dump()`` re-read through ``Deb822.iter_paragraphs``
               in six input forms with ``strict={'whitespace-separates-paragraphs': False}`` -
               and with the default setting when no continuation line is whitespace-only - must give
               exactly one paragraph whose field names are exactly the paragraph's names, in order.
               Values are not compared (that is C02).
"""
import io
import itertools

from hypothesis import strategies as st

from ..core import Violation, Enum, Hyp, short
from ..gen import c02_deb822text as G

from debian.deb822 import Deb822

ID = "C08"
LEVEL = "exploration"
RULE = ("a case is (paragraph, key, value); enumerated: every string of 0..4 characters over the 12 "
        "characters 'a B 0 : # - . SPACE TAB CR LF e-acute' assigned to the middle key of a three-field "
        "paragraph A,K,Z (and, for strings of 0..3 characters, to the first key, the last key and a new "
        "key); generated: sequences of 0..14 tokens over single characters and boundary-hitting "
        "multi-character tokens ('\\n ', '\\n\\t', '\\n\\n', '\\r\\n', 'B: ', '\\n#', '\\n.', an indented PGP "
        "armor line, ...) assigned to the first/middle/last key, to the same key in another letter case "
        "or to a new key of a 1..4-field paragraph with single- and multi-line neighbours (160 fixed "
        "paragraphs over boundary-shaped values, or a freshly generated one). "
        "Non-trivial = the value is rejected, or is accepted and contains a line boundary (LF or CR); "
        "distinct = distinct canonical JSON of the case")
ASSUMPTIONS = [
    "rejection rule restated by hand: reject iff the value ends in LF, or some line after the first is "
    "empty or does not start with SPACE/TAB, where lines end at LF, CR LF or CR (the str input form of "
    "the parser splits there); inside the property's character domain nothing else is a line boundary",
    "a continuation line counts as whitespace-only if it consists of SPACE/TAB once the value is split "
    "at LF, CR LF and CR (the coarsest reading: the default parser setting is then not exercised)",
    "field names of the dumped paragraph are taken from the object itself (list(d.keys())) and must "
    "equal, ignoring case, the names before the assignment plus the assigned key if it was new",
    "Hypothesis 6.168 generators; sha1 for distinctness",
]
EXHAUSTIVE = {
    "quick": "all strings of 0..4 characters over 12 characters (22 621) assigned to the middle key of "
             "A,K,Z; all strings of 0..3 characters (1 885) x {first key, last key, new key}",
    "thorough": "all strings of 0..5 characters over 12 characters (271 453) assigned to the middle key of "
                "A,K,Z; all strings of 0..4 characters (22 621) x {first key, last key, new key}",
}
BUDGET = {"quick": 200, "thorough": 1500}

WSP_OFF = {"whitespace-separates-paragraphs": False}


# ------------------------------------------------------------------------------------------
# the rule, restated


def split_lines(value):
    """Lines of ``value``; a line ends at LF, CR LF or CR.  No trailing empty piece for a final
    terminator (like file iteration), which is why 'ends in LF' is a separate clause."""
    out, cur, i, n = [], "", 0, len(value)
    while i < n:
        ch = value[i]
        if ch == "\r" and i + 1 < n and value[i + 1] == "\n":
            out.append(cur)
            cur = ""
            i += 2
            continue
        if ch == "\n" or ch == "\r":
            out.append(cur)
            cur = ""
            i += 1
            continue
        cur += ch
        i += 1
    if cur != "" or not value or value[-1] not in "\r\n":
        out.append(cur)
    return out


def rule(value):
    """None if the value must be accepted, else the name of the clause that demands rejection."""
    if value.endswith("\n"):
        return "trailing-newline"
    for line in split_lines(value)[1:]:
        if line == "":
            return "empty-line"
        if line[0] not in " \t":
            return "unindented-line"
    return None


def has_blank_continuation(value):
    return any(l.strip(" \t") == "" for l in split_lines(value)[1:])


def in_domain(value):
    return isinstance(value, str) and all(ch.isprintable() or ch in "\t\r\n" for ch in value)


# ------------------------------------------------------------------------------------------
# oracle


def _forms(text):
    """(name, factory) for the input forms; a factory gives a fresh object for every parse."""
    raw = text.encode("utf-8")
    parts = text.split("\n")
    if parts and parts[-1] == "":
        parts.pop()
        ended = True
    else:
        ended = False
    with_nl = [p + "\n" for p in parts]
    if not ended and with_nl:
        with_nl[-1] = with_nl[-1][:-1]
    return [
        ("str", lambda: text),
        ("bytes", lambda: raw),
        ("StringIO", lambda: io.StringIO(text)),
        ("BytesIO", lambda: io.BytesIO(raw)),
        ("lines+nl", lambda: list(with_nl)),
        ("lines", lambda: list(parts)),
    ]


def _classify(got, names):
    if len(got) != 1:
        return "paragraph-split", "%d paragraphs" % len(got)
    g = got[0]
    if g == names:
        return None, ""
    extra = [n for n in g if n not in names]
    missing = [n for n in names if n not in g]
    if extra:
        return "field-injected", "extra fields %r" % extra
    if missing:
        return "field-lost", "missing fields %r" % missing
    return "field-order", "order %r" % g


ORIGINS = ["new", "empty-str", "empty-list", "blank-lines", "empty-bytes", "parsed", "parsed-lines",
           "iter", "copy", "mapping", "dsc-empty"]


def make_paragraph(fields, origin):
    """The paragraph the value is assigned into, obtained the way ``origin`` says: the property
    speaks of *any* paragraph, however the object came to be."""
    def fill(d):
        for n, v in fields:
            d[n] = G.value_string(v)     # C02 domain: must be accepted; a ValueError here escapes
        return d
    if origin == "empty-str":
        return fill(Deb822(""))
    if origin == "empty-list":
        return fill(Deb822([]))
    if origin == "blank-lines":
        return fill(Deb822("\n\n"))
    if origin == "empty-bytes":
        return fill(Deb822(io.BytesIO(b"")))
    if origin == "dsc-empty":
        from debian.deb822 import Dsc
        return fill(Dsc(""))
    base = fill(Deb822())
    if origin == "parsed":
        return Deb822(base.dump())
    if origin == "parsed-lines":
        return Deb822(base.dump().split("\n"))
    if origin == "iter":
        got = list(Deb822.iter_paragraphs(base.dump()))
        if len(got) != 1:
            raise Violation("origin-parse", "iter_paragraphs of %s gave %d paragraphs" % (short(base.dump()), len(got)))
        return got[0]
    if origin == "copy":
        return base.copy()
    if origin == "mapping":
        return Deb822(base)
    return base


def check(case):
    if not (isinstance(case, dict) and G.valid_fields(case.get("fields")) and G.valid_name(case.get("key"))
            and in_domain(case.get("value"))):
        return (False, ("invalid-or-out-of-domain-case-skipped",))
    fields, key, value = case["fields"], case["key"], case["value"]

    d = make_paragraph(fields, case.get("origin", "new"))
    before = [[k, v] for k, v in d.items()]
    names_before = [f[0] for f in fields]
    lower = [n.lower() for n in names_before]
    if key.lower() in lower:
        pos = lower.index(key.lower())
        where = ("only" if len(lower) == 1 else "first" if pos == 0 else
                 "last" if pos == len(lower) - 1 else "middle")
        target = "existing-%s%s" % (where, "" if key == names_before[pos] else "-othercase")
        expect_lower = lower
    else:
        target = "new-key"
        expect_lower = lower + [key.lower()]

    verdict = rule(value)
    labels = ["target:" + target, "origin:" + str(case.get("origin", "new"))]
    if "\r" in value:
        labels.append("cr-present")
    if any(len(f[1][1]) > 0 for f in fields):
        labels.append("multiline-neighbour")

    try:
        d[key] = value
        accepted = True
    except ValueError:
        accepted = False

    if not accepted:
        after = [[k, v] for k, v in d.items()]
        if after != before:
            raise Violation("rejected-but-state-changed",
                            "d[%r] = %r raised ValueError but items went from %s to %s"
                            % (key, value, short(before), short(after)))
        # The statement only says which values MUST be rejected.  That a value is accepted is
        # promised elsewhere (C02) for first line + continuation lines that start with a blank and
        # contain non-blank text; for other values (whitespace-only continuation lines, CR used as
        # a line boundary) a stricter validator would still satisfy this property.
        plain = [l for l in value.split("\n")]
        c02_domain = "\r" not in value and all(
            l[:1] in (" ", "\t") and l.strip(" \t") != "" for l in plain[1:])
        if verdict is None and not c02_domain:
            labels.append("rejected-outside-c02-domain")
            return (True, labels)
        if verdict is None:
            raise Violation("rejected-valid-value",
                            "d[%r] = %r raised ValueError although it does not end in a newline and every "
                            "continuation line starts with a blank" % (key, value))
        labels.append("rejected:" + verdict)
        return (True, labels)

    names = list(d.keys())
    text = d.dump()
    blank_cont = has_blank_continuation(value)
    settings = [("wsp-off", WSP_OFF)]
    if not blank_cont:
        settings.append(("default", None))
    bad = None
    for sname, strict in settings:
        for fname, make in _forms(text):
            got = [list(p.keys()) for p in Deb822.iter_paragraphs(make(), strict=strict)]
            sig, why = _classify(got, names)
            if sig and bad is None:
                bad = (sig, "dump %s re-read as %s (%s) gives %s: %s; expected one paragraph with %r"
                       % (short(text), fname, sname, short(got), why, names))

    if verdict is not None:
        raise Violation("accepted-invalid:" + verdict,
                        "d[%r] = %r was accepted (%s); %s" % (
                            key, value, verdict, bad[1] if bad else "dump is %s" % short(text)))
    if [n.lower() for n in names] != expect_lower:
        raise Violation("object-keys-unexpected", "after d[%r] = %r keys are %r, expected (ignoring case) %r"
                        % (key, value, names, expect_lower))
    if bad:
        raise Violation(bad[0], "d[%r] = %r accepted; %s" % (key, value, bad[1]))

    multiline = ("\n" in value) or ("\r" in value)
    labels.append("accepted-multiline" if multiline else "accepted-single-line")
    if blank_cont:
        labels.append("accepted-blank-continuation")
    if value[:1] in ("\n", "\r") or (multiline and split_lines(value)[0].strip(" \t") == ""):
        labels.append("accepted-empty-first-line")
    if "PGP" in value:
        labels.append("pgp-armor-lookalike")
    if any(":" in l for l in split_lines(value)[1:]):
        labels.append("accepted-colon-in-continuation")
    return (multiline, labels)


# ------------------------------------------------------------------------------------------
# generators

ENUM_CHARS = ["a", "B", "0", ":", "#", "-", ".", " ", "\t", "\r", "\n", "é"]
AKZ = [["A", ["1", []]], ["K", ["2", [" 2b"]]], ["Z", ["3", ["\t3b", " 3c: d"]]]]


def enum_cases(maxlen):
    def gen():
        k = 0
        for n in range(0, maxlen + 1):
            for seq in itertools.product(ENUM_CHARS, repeat=n):
                v = "".join(seq)
                k += 1
                # the origin of the paragraph object cycles (coprime with the alphabet size), and
                # every value of up to 2 characters meets every origin
                for o in (ORIGINS if n <= 2 else [ORIGINS[k % len(ORIGINS)]]):
                    yield {"fields": AKZ, "key": "K", "value": v, "origin": o}
                if n < maxlen:
                    yield {"fields": AKZ, "key": "A", "value": v, "origin": ORIGINS[(k + 3) % len(ORIGINS)]}
                    yield {"fields": AKZ, "key": "Z", "value": v, "origin": ORIGINS[(k + 5) % len(ORIGINS)]}
                    yield {"fields": AKZ, "key": "New", "value": v, "origin": ORIGINS[(k + 7) % len(ORIGINS)]}
    return gen


TOKENS = (["a", "b", "Z", "0", "9", ":", "#", " ", " ", "\t", "\r", "\n", "\n", ".", "-", "é", "漢"]
          + ["\n ", "\n ", "\n\t", "\n\n", "\r\n", "\r\n ", "\r ", "B: ", "B:", "\nB: ", "\n B: ", "\n#", "\n #",
             "\n.", "\n .", " \n", "\t\n", "\n \n", "\n\t\r", ": ", "\n -----BEGIN PGP SIGNED MESSAGE-----",
             "\n -----BEGIN PGP SIGNATURE-----", "\n -----END PGP SIGNATURE-----", "-----BEGIN PGP SIGNED MESSAGE-----",
             "\n-----BEGIN PGP SIGNED MESSAGE-----", "\n  ", "\n \t "])

token_value = st.lists(st.sampled_from(TOKENS), min_size=0, max_size=14).map("".join)
text_value = st.builds(lambda v: G.value_string(v), G.value)          # always acceptable (C02 domain)
near_valid = st.builds(lambda v, t, w: G.value_string(v)[:w] + t + G.value_string(v)[w:],
                       G.value, st.sampled_from(TOKENS), st.integers(0, 12))
any_value = st.one_of(token_value, token_value, token_value, near_valid, text_value)


def _othercase(n):
    s = n.swapcase()
    return s if s != n else n          # names without letters have no other spelling


def _neighbour_pool():
    """160 fixed paragraphs of 1..4 fields over the boundary first/continuation lines of the C02
    generator (cheap to draw from; one case in five still gets a freshly generated paragraph)."""
    names = G.COMMON_NAMES + ["!x", '"q"', "$", ";semi", "~", "9", "X-y#z", "a.b", "(p)", "_u", "0-1", "@at"]
    pool, k = [], 0
    for size in (1, 2, 3, 4):
        for _ in range(40):
            fields, seen = [], set()
            for i in range(size):
                k += 1
                name = names[(k * 7 + i * 3) % len(names)]
                if name.lower() in seen:
                    name = "%s-%d" % (name, i)
                seen.add(name.lower())
                first = G.SPECIAL_FIRST[(k * 5 + i) % len(G.SPECIAL_FIRST)]
                conts = [G.SPECIAL_CONT[(k * 11 + i * 7 + c * 3) % len(G.SPECIAL_CONT)] for c in range((k + i) % 3)]
                fields.append([name, [first, conts]])
            pool.append(fields)
    return pool


NEIGHBOURS = _neighbour_pool()
paragraph = st.one_of(st.sampled_from(NEIGHBOURS), st.sampled_from(NEIGHBOURS), st.sampled_from(NEIGHBOURS),
                      st.sampled_from(NEIGHBOURS), G.fields(min_size=1, max_size=4))


@st.composite
def gen_case(draw):
    fields = draw(paragraph)
    how = draw(st.sampled_from(["first", "middle", "last", "new", "othercase", "othercase"]))
    names = [f[0] for f in fields]
    if how == "first":
        key = names[0]
    elif how == "last":
        key = names[-1]
    elif how == "middle":
        key = names[len(names) // 2]
    elif how == "othercase":
        key = _othercase(names[draw(st.integers(0, len(names) - 1))])
    else:
        key = "New-Field"
        if key.lower() in [n.lower() for n in names]:
            key = "New-Field-2"
    return {"fields": fields, "key": key, "value": draw(any_value), "origin": draw(st.sampled_from(ORIGINS))}


def sources(tier):
    if tier == "quick":
        return [Enum("values<=4chars", enum_cases(4), EXHAUSTIVE["quick"]),
                Hyp("token-values", gen_case(), 1200, shards=8)]
    return [Enum("values<=5chars", enum_cases(5), EXHAUSTIVE["thorough"]),
            Hyp("token-values", gen_case(), 25000, shards=16)]
