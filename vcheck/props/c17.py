"""C17 - copyright documents and license texts survive dump and re-parse.

Four kinds of case (plain JSON):

  {"kind": "doc", "input": "lines" | "stringio" | "noeol" | "bytes",
   "header": {"name": str, "contacts": [str], "source": value, "comment": value,
              "license": [synopsis, text], "copyright": value, "excluded": [str]}   (all optional)
   "paras": [["F", [glob, ...], copyright value, [synopsis, text], comment value | null] |
             ["L", [synopsis, text], comment value | null], ...]}

      The document is built with Copyright(), the header properties, add_files_paragraph and
      add_license_paragraph in the given order, dumped, and read back in strict mode from the
      given input form (list of lines with or without line ends, file object, utf-8 bytes lines).

  {"kind": "parsed", "input": ..., "header": {...}, "paras": [...], "more": [...]}   (same shapes)
      The document object is obtained the other way: the harness writes header and "paras" out
      itself (paragraphs in the generated order, so a stand-alone License paragraph may stand
      before or between Files paragraphs - an arrangement the add_* methods never produce), one
      field per generated value in raw deb822 form, ' .' for an empty license line, line-based
      lists on one resp. several lines) and parses that in strict mode.  Demanded:
        (a) the parsed object holds the written paragraphs in the written order (this only
            establishes which document is under test; on the unchanged tree the written text is
            byte for byte what dump() gives back - label parsed-doc:first-dump-equals-written-text -
            but that equality is not demanded: the property speaks of dumped text only);
        then the paragraphs of "more" are added through add_files_paragraph / add_license_paragraph
        (order as their docstrings promise: after the last Files paragraph resp. at the end);
        (b) dump() of this object parses back in strict mode to the same sequence of paragraphs
            with the same contents;
        (c) the dump of the re-parsed object is the identical text.

  Both document kinds carry two optional keys for LATER CALLS ON THE SAME OBJECTS (later_calls):
    "edits": [["h", key, value | null] | ["p", index, "files"|"copyright"|"license"|"comment", value]
              | ["x", index, "X-Note"|"X-Origin", value | null], ...]
        after the checks above (the document has been dumped by then) each edit is applied to the
        held objects - a header property assigned or set to None, a paragraph property assigned
        (comment: or set to None), an unrestricted extra field set or deleted (index modulo the
        number of paragraphs; for "x" 0 = header) - and after EACH edit the held objects must show
        the edited values, and dump() must parse back in strict mode to the edited sequence of
        paragraphs (same fields, same values) with an identical second dump: an edited document is
        a built document like any other.
    "perturb": "pop0"|"clear"|"append"|"reverse"|"set"   (default pop0)
        finally the caller decodes the raw License value of every paragraph of the held and of the
        re-parsed document with parse_multiline_as_lines, edits the returned list in place, and
        all getters of both documents are compared with the model once more.

  {"kind": "codec", "lines": [str, ...], "perturb": op}
      format_multiline_lines / parse_multiline_as_lines, format_multiline / parse_multiline and
      License.to_str / License.from_str on the same lines; then the list returned by the decoder
      is edited in place (op) and the same encoded text is decoded again by parse_multiline_as_lines,
      parse_multiline and License.from_str: every decode must return the original lines.

  {"kind": "list", "field": "files" | "contacts" | "excluded", "items": [str, ...]}
      the list-valued properties (space separated resp. one per line) directly and through a
      dump/parse of a minimal document; items that cannot be represented must be rejected with
      MachineReadableFormatError, never stored in a form that reads back differently.

"value" = the raw deb822 form of a free-text field: a stripped first line (may be empty) and
continuation lines that start with a blank or tab and contain a visible character.
License text = lines joined with newlines; a line is empty or contains a visible character and is
not a lone '.' (the property's own precondition).  Characters: printable Unicode and TAB -
including valid text that is in no Unicode normalisation form (a letter followed by a combining
mark, ANGSTROM SIGN / OHM SIGN, conjoining Hangul jamo, precomposed and compatibility characters)
in every text-bearing place (copyright, license synopsis and text, comments, header fields, list
items, patterns, X- fields): the values read back must equal the given ones character for character.
A pattern is any run of visible characters (commas, semicolons, colons, quotes, brackets, ...: the
space-separated Files field gives a meaning to white space only); the lists read from the built, the
parsed and the re-parsed paragraph are compared with the list that was GIVEN.
"""
import io
import unicodedata

from hypothesis import strategies as st

from ..core import Violation, Hyp, short

from debian import copyright as C

ID = "C17"
LEVEL = "exploration"
RULE = ("cases are copyright documents (optional header fields incl. 1..3-element contact / "
        "exclusion lists and a header license; 0..5 Files paragraphs of 1..3 patterns, multi-line "
        "copyright value, License(synopsis, text), optional comment; stand-alone License "
        "paragraphs; added in generated, mixed order) x 4 input forms for the re-parse; the same "
        "ingredients (0..6 paragraphs of both kinds in ANY order, License paragraphs before and "
        "between Files paragraphs) written out by the harness, parsed, in 1/3 of the cases extended "
        "by 1..2 paragraphs through add_*, then dumped and re-parsed; line lists "
        "for the multi-line codec; item lists for the list-valued properties. Every document case "
        "carries 0..3 edits applied after its first dump (header field removed / assigned, paragraph "
        "comment removed / assigned, license / copyright / pattern list assigned, X- field set / "
        "deleted; removals aimed at fields that are present), each followed by dump, strict "
        "re-parse, comparison with the edited model (values and field names) and second dump; "
        "every document and codec case ends with the caller editing in place (5 ways) the line "
        "lists parse_multiline_as_lines handed out and asking the decoders / getters again. "
        "License text lines "
        "are drawn from classes: empty, plain, indented, trailing blanks, leading '.', leading "
        "'#', field-/PGP-lookalikes, non-ASCII. The word/character alphabet of all texts holds "
        "non-normalised Unicode (letter + combining mark, U+212B, U+2126, Hangul jamo, precomposed "
        "and compatibility characters); patterns are drawn from an alphabet with comma, semicolon, "
        "colon, quotes, brackets and the other ASCII punctuation, and from glob + punctuation + "
        "suffix combinations. Non-trivial = a document with a license text "
        "holding both an empty and an indented line, or with paragraphs of both kinds (parsed "
        "documents: a License paragraph standing before a Files paragraph); a codec "
        "case with an empty line after the first and an indented or dot-led line; a list case "
        "with >=2 items; distinct = distinct canonical JSON of the case")
ASSUMPTIONS = [
    "expected values are the generated ones (no model of the parser); the expected paragraph "
    "order follows the docstrings of add_files_paragraph (after the last Files paragraph) and "
    "add_license_paragraph (at the end)",
    "parsed-document route: the text the harness writes (field order of the builder route, "
    "'Name: value' / 'Name:' + newline-led value, one blank + line resp. ' .' for license text, "
    "patterns joined by one blank, one empty line between paragraphs) is a valid copyright file "
    "whose parse in strict mode yields the written values; that parse is checked (sig parsed:*), "
    "equality of the first dump with the written text is only recorded as a label",
    "edits after a dump: the expected state is the model with the same assignment applied "
    "(property = None or an empty list removes the field, as RestrictedField documents); extra "
    "fields are 'X-Note' / 'X-Origin' with values in deb822 form; 'the same paragraph' is taken to "
    "include the set of field names (case-insensitive) and the raw values of these extra fields",
    "a list returned by parse_multiline_as_lines belongs to the caller: editing it must not "
    "change what a later decode of the same text or a property getter returns",
    "text is compared by code point: canonically equivalent but differently encoded strings are "
    "different values (the statement says 'the same ... text' and 'identical text'; the library "
    "documents no normalisation)",
    "in a space-separated list only white space separates: every other visible character, "
    "punctuation included, is part of the pattern (_SpaceSeparated docstring; copyright-format 1.0)",
    "characters are limited to str.isprintable() plus TAB (DESIGN section 6: characters on which "
    "str.splitlines splits but '\\n'-based file iteration does not are outside the domain)",
    "texts are compared as newline-joined lines: one trailing newline of a license text and "
    "[''] versus [] are the same text (DESIGN section 6)",
    "free-text values are generated in deb822 form (stripped first line, no whitespace-only "
    "continuation line): what Deb822 itself documents as a valid value",
    "Hypothesis 6.168 generators; sha1 for distinctness",
]
BUDGET = {"quick": 200, "thorough": 1500}

MRFE = C.MachineReadableFormatError


# ------------------------------------------------------------------------------------------
# domain predicates (replay files and shrunk cases are validated, never trusted)


def _chars_ok(s, extra="\t"):
    return isinstance(s, str) and all(ch.isprintable() or ch in extra for ch in s)


def is_single_line(s):
    return _chars_ok(s) and s == s.strip()


def is_value(s):
    """Raw deb822 form of a free-text field."""
    if not _chars_ok(s, "\t\n"):
        return False
    lines = s.split("\n")
    if lines[0] != lines[0].strip():
        return False
    for l in lines[1:]:
        if l == "" or l[0] not in " \t" or l.strip() == "":
            return False
    return True


def text_lines(text):
    """Lines of a license text; one trailing newline does not start a further line."""
    lines = text.split("\n")
    if lines[-1] == "":
        lines.pop()
    return lines


def admissible_line(l):
    return l == "" or (l.strip() != "" and l != ".")


def is_license(x):
    return (isinstance(x, list) and len(x) == 2 and is_single_line(x[0]) and
            _chars_ok(x[1], "\t\n") and all(admissible_line(l) for l in text_lines(x[1])))


def is_pattern_list(x):
    return (isinstance(x, list) and len(x) >= 1 and
            all(_chars_ok(p, "") and p != "" and not any(ch.isspace() for ch in p) for p in x))


def is_item_list(x):
    return (isinstance(x, list) and
            all(is_single_line(e) and e != "" for e in x))


def norm_text(text):
    return "\n".join(text_lines(text))


def same_text(got, want):
    """A final newline does not start a further line: the text may come back with or without it."""
    return got == want or got == norm_text(want)


# ------------------------------------------------------------------------------------------
# documents


def valid_header(h):
    if not isinstance(h, dict):
        return False
    for k, v in h.items():
        if k == "name":
            ok = is_single_line(v)
        elif k in ("contacts", "excluded"):
            ok = is_item_list(v)
        elif k in ("source", "comment", "copyright"):
            ok = is_value(v)
        elif k == "license":
            ok = is_license(v)
        else:
            ok = False
        if not ok:
            return False
    return True


def valid_paras(paras):
    if not isinstance(paras, list):
        return False
    for p in paras:
        if not isinstance(p, list) or not p:
            return False
        if p[0] == "F" and len(p) == 5:
            if not (is_pattern_list(p[1]) and is_value(p[2]) and is_license(p[3]) and
                    (p[4] is None or is_value(p[4]))):
                return False
        elif p[0] == "L" and len(p) == 3:
            if not (is_license(p[1]) and (p[2] is None or is_value(p[2]))):
                return False
        else:
            return False
    return True


def valid_doc(case):
    return (valid_header(case.get("header", {})) and valid_paras(case.get("paras")) and
            case.get("input") in ("lines", "stringio", "noeol", "bytes") and
            valid_edits(case.get("edits", [])))


def lic(x):
    return C.License(x[0], x[1])


def build(case):
    doc = C.Copyright()
    h = case.get("header", {})
    hd = doc.header
    if "name" in h:
        hd.upstream_name = h["name"]
    if "contacts" in h:
        hd.upstream_contact = list(h["contacts"])
    if "source" in h:
        hd.source = h["source"]
    if "comment" in h:
        hd.comment = h["comment"]
    if "license" in h:
        hd.license = lic(h["license"])
    if "copyright" in h:
        hd.copyright = h["copyright"]
    if "excluded" in h:
        hd.files_excluded = list(h["excluded"])
    objs = []
    for p in case["paras"]:
        objs.append(add_paragraph(doc, p))
    return doc, objs


def add_paragraph(doc, p):
    if p[0] == "F":
        o = C.FilesParagraph.create(list(p[1]), p[2], lic(p[3]))
        if p[4] is not None:
            o.comment = p[4]
        doc.add_files_paragraph(o)
    else:
        o = C.LicenseParagraph.create(lic(p[1]))
        if p[2] is not None:
            o.comment = p[2]
        doc.add_license_paragraph(o)
    return o


def held_order(kinds_held, kinds_added):
    """Positions after add_files_paragraph ('directly after the last FilesParagraph') and
    add_license_paragraph ('after any other paragraphs') calls on a document that holds
    paragraphs of kinds kinds_held: list of indices into kinds_held + kinds_added."""
    kinds = list(kinds_held) + list(kinds_added)
    seq = list(range(len(kinds_held)))
    for i in range(len(kinds_held), len(kinds)):
        if kinds[i] == "F":
            last = -1
            for pos, j in enumerate(seq):
                if kinds[j] == "F":
                    last = pos
            seq.insert(last + 1, i)
        else:
            seq.append(i)
    return seq


def expect_header(hd, h, where):
    exp = [
        ("format", hd.format, "https://www.debian.org/doc/packaging-manuals/copyright-format/1.0/"),
        ("upstream_name", hd.upstream_name, h.get("name")),
        ("upstream_contact", hd.upstream_contact, tuple(h.get("contacts", ()))),
        ("source", hd.source, h.get("source")),
        ("comment", hd.comment, h.get("comment")),
        ("copyright", hd.copyright, h.get("copyright")),
        ("files_excluded", hd.files_excluded, tuple(h.get("excluded", ()))),
    ]
    for name, got, want in exp:
        if isinstance(want, tuple):
            got = tuple(got) if got is not None else ()
        if got != want:
            raise Violation("%s:header-%s" % (where, "list" if isinstance(want, tuple) else "field"),
                            "header.%s is %r, built from %r" % (name, got, want))
    expect_license(hd.license, h.get("license"), where, "header")


def expect_license(got, want, where, what):
    if want is None:
        if got is not None:
            raise Violation(where + ":license", "%s: license %r appeared from nowhere" % (what, got))
        return
    if got is None:
        raise Violation(where + ":license", "%s: license %r lost" % (what, want))
    if got.synopsis != want[0]:
        raise Violation(where + ":license-synopsis",
                        "%s: synopsis %r, built from %r" % (what, got.synopsis, want[0]))
    if not same_text(got.text, want[1]):
        raise Violation(where + ":license-text",
                        "%s: text %r, built from %r" % (what, got.text, want[1]))


def expect_paragraph(o, p, where, what):
    if p[0] == "F":
        if not isinstance(o, C.FilesParagraph):
            raise Violation(where + ":paragraph-kind", "%s is %s, expected a Files paragraph"
                            % (what, type(o).__name__))
        if tuple(o.files) != tuple(p[1]):
            raise Violation(where + ":files", "%s: files %r, built from %r" % (what, o.files, p[1]))
        if o.copyright != p[2]:
            raise Violation(where + ":copyright", "%s: copyright %r, built from %r"
                            % (what, o.copyright, p[2]))
        expect_license(o.license, p[3], where, what)
        if o.comment != p[4]:
            raise Violation(where + ":comment", "%s: comment %r, built from %r" % (what, o.comment, p[4]))
    else:
        if not isinstance(o, C.LicenseParagraph):
            raise Violation(where + ":paragraph-kind", "%s is %s, expected a License paragraph"
                            % (what, type(o).__name__))
        expect_license(o.license, p[1], where, what)
        if o.comment != p[2]:
            raise Violation(where + ":comment", "%s: comment %r, built from %r" % (what, o.comment, p[2]))


def to_input(text, form):
    """The text in one of the four input forms of Copyright(sequence)."""
    if form == "stringio":
        return io.StringIO(text)
    lines = [l + "\n" for l in text.split("\n")[:-1]]
    if "".join(lines) != text:
        raise Violation("dump-not-newline-terminated", "dump ends with %r" % text[-20:])
    if form == "noeol":
        lines = [l[:-1] for l in lines]
    elif form == "bytes":
        lines = [l.encode("utf-8") for l in lines]
    return lines


def reparse(text, form, sig="dumped-text-rejected-in-strict-mode"):
    seq = to_input(text, form)
    try:
        return C.Copyright(seq, strict=True)
    except (C.NotMachineReadableError, MRFE) as e:
        raise Violation(sig, "%s: %s on %s" % (type(e).__name__, e, short(text, 400)))


def check_doc(case):
    if not valid_doc(case):
        return (False, ("invalid-case-skipped",))
    paras, h = case["paras"], case.get("header", {})
    doc, objs = build(case)

    # order promised by the two add_* docstrings
    order = held_order([], [p[0] for p in paras])
    built = list(doc.all_paragraphs())
    if not built or built[0] is not doc.header:
        raise Violation("built:paragraph-sequence", "all_paragraphs() does not start with the header")
    if len(built) - 1 != len(objs) or any(a is not objs[i] for a, i in zip(built[1:], order)):
        got = [objs.index(a) if a in objs else "?" for a in built[1:]]
        raise Violation("built:paragraph-order",
                        "paragraphs added as %s are held in order %r, docstrings promise %r"
                        % ("".join(p[0] for p in paras), got, order))
    expect_header(doc.header, h, "built")
    for i in order:
        expect_paragraph(objs[i], paras[i], "built", "paragraph %d" % i)

    text = doc.dump()
    if not isinstance(text, str):
        raise Violation("dump-not-text", "dump() returned %r" % (text,))
    buf = io.StringIO()
    doc.dump(f=buf)
    if buf.getvalue() != text:
        raise Violation("dump-to-file-differs", "dump(f) wrote %s, dump() returned %s"
                        % (short(buf.getvalue(), 200), short(text, 200)))

    doc2 = reparse(text, case["input"])
    got = list(doc2.all_paragraphs())
    if len(got) != len(built):
        raise Violation("reparsed:paragraph-count", "%d paragraphs dumped, %d read back from %s"
                        % (len(built), len(got), short(text, 400)))
    expect_header(doc2.header, h, "reparsed")
    for k, i in enumerate(order):
        expect_paragraph(got[k + 1], paras[i], "reparsed", "paragraph %d of %s" % (k + 1, short(text, 300)))
    nf = sum(1 for p in paras if p[0] == "F")
    if len(list(doc2.all_files_paragraphs())) != nf or \
            len(list(doc2.all_license_paragraphs())) != len(paras) - nf:
        raise Violation("reparsed:paragraph-kind", "all_files/all_license_paragraphs disagree with all_paragraphs")
    text2 = doc2.dump()
    if text2 != text:
        raise Violation("second-dump-differs", "first dump %s, dump of the re-parsed document %s"
                        % (short(text, 300), short(text2, 300)))

    # ---- labels
    labels = set(["doc", "input:" + case["input"], "paragraphs:%d" % min(len(paras), 5)])

    # the encoding= parameter of the reader and of the paragraphs' own dump(fd), at the default and
    # at a codec that is not UTF-8, wherever the text can be expressed in it: the bytes written are
    # the text in that codec, and reading them with that codec gives the document again
    for codec in ("utf-8", "iso-8859-1"):
        try:
            raw = text.encode(codec)
        except UnicodeEncodeError:
            labels.add("encoding=%s:not-applicable" % codec)
            continue
        blines = [l + b"\n" for l in raw.split(b"\n")[:-1]]
        for how, seq in (("bytes lines", blines), ("binary file", io.BytesIO(raw)), ("bytes", raw)):
            if how == "bytes" and (b"\r" in raw or "\x85" in text):
                continue        # a whole buffer is cut by splitlines(): C02's and C07's territory
            try:
                d = C.Copyright(seq, encoding=codec, strict=True)
            except (C.NotMachineReadableError, MRFE, UnicodeError) as e:
                raise Violation("encoding-parameter:dumped-text-rejected", "%s as %s with encoding=%r: %s: %s"
                                % (short(text, 300), how, codec, type(e).__name__, e))
            if d.dump() != text:
                raise Violation("encoding-parameter:reparsed-differs", "%s encoded as %s, read as %s with "
                                "encoding=%r, dumps %s" % (short(text, 300), codec, how, codec, short(d.dump(), 300)))
        for k, para in enumerate(doc.all_paragraphs()):
            fd = io.BytesIO()
            para.dump(fd, encoding=codec)
            if fd.getvalue() != para.dump().encode(codec):
                raise Violation("encoding-parameter:paragraph-dump-differs", "paragraph %d: dump(fd, encoding=%r) "
                                "wrote %s, dump() is %s" % (k, codec, short(fd.getvalue(), 300), short(para.dump(), 300)))
        labels.add("encoding=%s:%s" % (codec, "non-ascii" if any(ord(c) > 127 for c in text) else "ascii-only"))

    later_calls(case, doc, doc2, [objs[i] for i in order], h, [paras[i] for i in order], labels)
    kinds = [p[0] for p in paras]
    if "F" in kinds and "L" in kinds:
        labels.add("both-paragraph-kinds")
        if order != list(range(len(paras))):
            labels.add("files-paragraph-added-after-license-paragraph")
    rich = content_labels(paras, h, labels)
    unicode_labels(text, labels)
    nontrivial = rich or ("F" in kinds and "L" in kinds)
    return (nontrivial, sorted(labels))


def unicode_labels(text, labels):
    """Which kinds of non-ASCII text the dumped document holds (unicodedata is used for the labels
    only: the oracle compares what comes back with what was given, character for character)."""
    if any(ord(ch) > 127 for ch in text):
        labels.add("non-ascii")
        for form in ("NFC", "NFD", "NFKC"):
            if unicodedata.normalize(form, text) != text:
                labels.add("non-ascii:text-not-in-" + form)


PUNCT = set(",;:'\"[]{}()<>!#$%&=@^`|~")


def content_labels(paras, h, labels):
    """Labels for the contents of header and paragraphs; True if some license text is rich."""
    lics = [p[3] if p[0] == "F" else p[1] for p in paras] + ([h["license"]] if "license" in h else [])
    rich = False
    for l in lics:
        tl = text_lines(l[1])
        cl = set(line_class(x) for x in tl)
        for c in cl:
            labels.add("license-line:" + c)
        if l[0] == "":
            labels.add("license:empty-synopsis")
        if not tl:
            labels.add("license:no-text")
        if l[1].endswith("\n"):
            labels.add("license:text-ends-with-newline")
        if tl and tl[0] == "":
            labels.add("license:text-starts-with-empty-line")
        if "empty" in cl and "indented" in cl:
            rich = True
    for p in paras:
        if p[0] == "F":
            labels.add("files:%d-pattern%s" % (min(len(p[1]), 3), "" if len(p[1]) == 1 else "s"))
            if len(" ".join(p[1])) > 72:
                labels.add("files:list-longer-than-72-chars")
            if any(len(x) > 72 for x in p[1]):
                labels.add("files:pattern-longer-than-72-chars")
            for x in p[1]:
                if "," in x:
                    labels.add("files:pattern-with-comma")
                if PUNCT.intersection(x) - set(","):
                    labels.add("files:pattern-with-other-punctuation")
                if any(ord(ch) > 127 for ch in x):
                    labels.add("files:pattern-non-ascii")
            if "\n" in p[2]:
                labels.add("copyright:multi-line")
            if p[2].startswith("\n"):
                labels.add("copyright:empty-first-line")
        if p[-1] is not None:
            labels.add("paragraph-comment")
    for k in h:
        labels.add("header:" + k)
    for k in ("contacts", "excluded"):
        if k in h:
            labels.add("header:%s=%s" % (k, "0" if not h[k] else "1" if len(h[k]) == 1 else "n"))
    return rich


def line_class(l):
    if l == "":
        return "empty"
    if l[0] in " \t":
        return "indented"
    if l[0] == ".":
        return "dot-led"
    if l[0] == "#":
        return "hash-led"
    if l[-1] in " \t":
        return "trailing-blank"
    if ":" in l or l.startswith("-----"):
        return "field-or-pgp-lookalike"
    return "plain"


# ------------------------------------------------------------------------------------------
# documents obtained by parsing: paragraphs in any order, optionally extended through the API


def field(name, raw):
    """One deb822 field; raw is the raw value (first line + continuation lines)."""
    return "%s:%s%s\n" % (name, "" if raw == "" or raw[0] == "\n" else " ", raw)


def raw_license(x):
    """synopsis line, then every text line behind one blank, an empty line as ' .'"""
    return "\n".join([x[0]] + [" " + (l if l != "" else ".") for l in text_lines(x[1])])


def raw_items(items):
    """line-based list: a single item on the field's own line, several on continuation lines"""
    return items[0] if len(items) == 1 else "".join("\n " + e for e in items)


def render(h, paras):
    """The document as text: the fields in the order build() sets them, one empty line between
    paragraphs, free-text values as they are (they are generated in raw deb822 form)."""
    out = [field("Format", "https://www.debian.org/doc/packaging-manuals/copyright-format/1.0/")]
    if "name" in h:
        out.append(field("Upstream-Name", h["name"]))
    if h.get("contacts"):
        out.append(field("Upstream-Contact", raw_items(h["contacts"])))
    if "source" in h:
        out.append(field("Source", h["source"]))
    if "comment" in h:
        out.append(field("Comment", h["comment"]))
    if "license" in h:
        out.append(field("License", raw_license(h["license"])))
    if "copyright" in h:
        out.append(field("Copyright", h["copyright"]))
    if h.get("excluded"):
        out.append(field("Files-Excluded", raw_items(h["excluded"])))
    for p in paras:
        out.append("\n")
        if p[0] == "F":
            out.append(field("Files", " ".join(p[1])))
            out.append(field("Copyright", p[2]))
            out.append(field("License", raw_license(p[3])))
        else:
            out.append(field("License", raw_license(p[1])))
        if p[-1] is not None:
            out.append(field("Comment", p[-1]))
    return "".join(out)


HEADER_FIELDS = {"name": "upstream-name", "contacts": "upstream-contact", "source": "source",
                 "comment": "comment", "license": "license", "copyright": "copyright",
                 "excluded": "files-excluded"}


def expect_fields(o, names, extra, where, what):
    """The paragraph holds exactly the fields of the model (names compared case-insensitively) and
    the extra (unrestricted, 'X-...') fields have the raw values they were given."""
    names = set(names) | set(n.lower() for n in extra)
    got = set(k.lower() for k in o)
    if got != names:
        raise Violation(where + ":field-names", "%s: fields %r, the built paragraph has %r"
                        % (what, sorted(got), sorted(names)))
    for n in sorted(extra):
        if o[n] != extra[n]:
            raise Violation(where + ":extra-field", "%s: %s is %r, set to %r" % (what, n, o[n], extra[n]))


def header_names(h):
    return ["format"] + [HEADER_FIELDS[k] for k in h if not (k in ("contacts", "excluded") and not h[k])]


def para_names(p):
    return (["files", "copyright", "license"] if p[0] == "F" else ["license"]) + \
        (["comment"] if p[-1] is not None else [])


def expect_sequence(doc, h, paras, where, text, extras=None):
    got = _expect_sequence(doc, h, paras, where, text)
    what = short(text, 300)
    expect_fields(got[0], header_names(h), extras[0] if extras else {}, where, "header of " + what)
    for k, p in enumerate(paras):
        expect_fields(got[k + 1], para_names(p), extras[k + 1] if extras else {}, where,
                      "paragraph %d of %s" % (k + 1, what))
    return got


def _expect_sequence(doc, h, paras, where, text):
    got = list(doc.all_paragraphs())
    if len(got) != len(paras) + 1:
        raise Violation(where + ":paragraph-count", "%d paragraphs expected, %d found; text %s"
                        % (len(paras) + 1, len(got), short(text, 400)))
    if got[0] is not doc.header:
        raise Violation(where + ":paragraph-sequence", "all_paragraphs() does not start with the header")
    expect_header(doc.header, h, where)
    for k, p in enumerate(paras):
        expect_paragraph(got[k + 1], p, where, "paragraph %d of %s" % (k + 1, short(text, 300)))
    nf = sum(1 for p in paras if p[0] == "F")
    if len(list(doc.all_files_paragraphs())) != nf or \
            len(list(doc.all_license_paragraphs())) != len(paras) - nf:
        raise Violation(where + ":paragraph-kind", "all_files/all_license_paragraphs disagree with all_paragraphs")
    return got


def check_parsed(case):
    if not (valid_doc(case) and valid_paras(case.get("more", []))):
        return (False, ("invalid-case-skipped",))
    h, paras, more, form = case.get("header", {}), case["paras"], case.get("more", []), case["input"]

    # (a) the document is obtained by parsing; it must be the one that was written
    written = render(h, paras)
    doc = reparse(written, form, "written-text-rejected-in-strict-mode")
    held = expect_sequence(doc, h, paras, "parsed", written)

    # ... and may be extended through the API
    objs = held[1:] + [add_paragraph(doc, p) for p in more]
    allp = paras + more
    order = held_order([p[0] for p in paras], [p[0] for p in more])
    now = list(doc.all_paragraphs())
    if len(now) - 1 != len(order) or any(a is not objs[i] for a, i in zip(now[1:], order)):
        got = [([i for i, o in enumerate(objs) if o is a] or ["?"])[0] for a in now[1:]]
        raise Violation("parsed+added:paragraph-order",
                        "parsed %s, then added %s: held in order %r, docstrings promise %r"
                        % ("".join(p[0] for p in paras), "".join(p[0] for p in more), got, order))
    expected = [allp[i] for i in order]
    if more:
        expect_sequence(doc, h, expected, "parsed+added", written)

    # (b) its dump parses back to the same sequence of paragraphs
    text = doc.dump()
    if not isinstance(text, str):
        raise Violation("dump-not-text", "dump() returned %r" % (text,))
    buf = io.StringIO()
    doc.dump(f=buf)
    if buf.getvalue() != text:
        raise Violation("dump-to-file-differs", "dump(f) wrote %s, dump() returned %s"
                        % (short(buf.getvalue(), 200), short(text, 200)))
    expect_sequence(doc, h, expected, "parsed-doc-after-dump", text)      # dumping changes nothing
    doc2 = reparse(text, form)
    expect_sequence(doc2, h, expected, "parsed-doc-reparsed", text)

    # (c) and the dump of that one is the same text
    text2 = doc2.dump()
    if text2 != text:
        raise Violation("second-dump-differs", "dump of a parsed document %s, dump of the re-parsed one %s"
                        % (short(text, 300), short(text2, 300)))

    labels = set(["parsed-doc", "input:" + form, "paragraphs:%d" % min(len(allp), 5),
                  "parsed-doc:added-%d" % len(more)])
    later_calls(case, doc, doc2, [objs[i] for i in order], h, expected, labels)
    kinds = [p[0] for p in paras]
    interleaved = "F" in kinds and "L" in kinds[:len(kinds) - 1 - kinds[::-1].index("F")]
    if interleaved:
        labels.add("parsed-doc:license-paragraph-before-files-paragraph")
    if "F" in kinds and "L" in kinds:
        labels.add("both-paragraph-kinds")
    if not more:
        # not demanded by the property (the written text is the harness's, not a dump); informative
        labels.add("parsed-doc:first-dump-%s-written-text" % ("equals" if text == written else "differs-from"))
    elif order != list(range(len(allp))):
        labels.add("parsed-doc:files-paragraph-inserted-before-parsed-license-paragraph")
    rich = content_labels(allp, h, labels)
    unicode_labels(text, labels)
    return (interleaved or rich, sorted(labels))


# ------------------------------------------------------------------------------------------
# the same document object again: edited after it has been dumped, then dumped once more;
# lists the library handed out edited in place by the caller, then the getters asked once more

XNAMES = ("X-Note", "X-Origin")
PERTURB_OPS = ("pop0", "clear", "append", "reverse", "set")


def valid_edits(edits):
    if not isinstance(edits, list):
        return False
    for e in edits:
        if not isinstance(e, list) or not e:
            return False
        if e[0] == "h" and len(e) == 3:
            k, v = e[1], e[2]
            if k not in HEADER_FIELDS or not (v is None or valid_header({k: v})):
                return False
        elif e[0] == "p" and len(e) == 4:
            a, v = e[2], e[3]
            if not isinstance(e[1], int):
                return False
            ok = (a == "files" and is_pattern_list(v)) or (a == "copyright" and is_value(v)) or \
                (a == "license" and is_license(v)) or (a == "comment" and (v is None or is_value(v)))
            if not ok:
                return False
        elif e[0] == "x" and len(e) == 4:
            if not isinstance(e[1], int) or e[2] not in XNAMES or not (e[3] is None or is_value(e[3])):
                return False
        else:
            return False
    return True


def apply_edit(objs, h, paras, extras, e):
    """One edit on the held objects (objs[0] = header) and on the model; the label of the edit,
    or None when it is not applicable to this document."""
    if e[0] == "h":
        k, v = e[1], e[2]
        attr = {"name": "upstream_name", "contacts": "upstream_contact",
                "excluded": "files_excluded"}.get(k, k)
        was = k in h
        if v is None:
            setattr(objs[0], attr, None)
            h.pop(k, None)
            return "edit:header-field-removed" if was else "edit:absent-header-field-set-to-None"
        setattr(objs[0], attr, lic(v) if k == "license" else list(v) if isinstance(v, list) else v)
        h[k] = v
        return "edit:header-field-replaced" if was else "edit:header-field-added"
    if e[0] == "p":
        if not paras:
            return None
        i = e[1] % len(paras)
        o, p, a, v = objs[i + 1], paras[i], e[2], e[3]
        if a in ("files", "copyright") and p[0] != "F":
            return None
        if a == "files":
            o.files = list(v)
            p[1] = v
        elif a == "copyright":
            o.copyright = v
            p[2] = v
        elif a == "license":
            o.license = lic(v)
            p[3 if p[0] == "F" else 1] = v
        else:
            was = p[-1] is not None
            o.comment = v
            p[-1] = v
            if v is None:
                return "edit:paragraph-comment-removed" if was else "edit:absent-comment-set-to-None"
        return "edit:paragraph-%s-assigned" % a
    i = e[1] % len(objs)
    o, x, name, v = objs[i], extras[i], e[2], e[3]
    if v is None:
        if name not in x:
            return None
        del o[name]
        del x[name]
        return "edit:extra-field-deleted"
    o[name] = v
    x[name] = v
    return "edit:extra-field-set"


def perturb(lst, op):
    """The caller edits, in place, a list the library handed out."""
    if not isinstance(lst, list):
        return False
    if op == "clear":
        del lst[:]
    elif op == "append":
        lst.append("appended by the caller")
    elif op == "reverse" and len(lst) > 1:
        lst.reverse()
        lst.append("reversed by the caller")
    elif op == "set" and lst:
        lst[-1] = "set by the caller"
    elif lst:
        lst.pop(0)
    else:
        lst.append("appended by the caller")
    return True


def perturb_op(case):
    op = case.get("perturb")
    return op if op in PERTURB_OPS else "pop0"


def dump_round(doc, h, paras, extras, form, where):
    """dump() of the held document parses back to the model's paragraphs; the dump of the
    re-parsed document is the identical text.  Returns the re-parsed document."""
    text = doc.dump()
    if not isinstance(text, str):
        raise Violation("dump-not-text", "dump() returned %r" % (text,))
    buf = io.StringIO()
    doc.dump(f=buf)
    if buf.getvalue() != text:
        raise Violation("dump-to-file-differs", "dump(f) wrote %s, dump() returned %s"
                        % (short(buf.getvalue(), 200), short(text, 200)))
    doc2 = reparse(text, form)
    expect_sequence(doc2, h, paras, where + "-reparsed", text, extras)
    text2 = doc2.dump()
    if text2 != text:
        raise Violation("second-dump-differs", "dump %s, dump of the re-parsed document %s"
                        % (short(text, 300), short(text2, 300)))
    return doc2, text


def later_calls(case, doc, doc2, objs, h, paras, labels):
    """doc: the held document, already dumped; doc2: the document read back from that dump;
    objs/paras: its paragraph objects / their model, in held order.

    (1) each edit of case["edits"] is applied to the held objects (a property assigned or set to
        None, an unrestricted 'X-' field set or deleted); after each one the objects must show the
        edited values and the document must dump / re-parse / dump as any built document does;
    (2) for every License field of both documents the caller decodes the raw value with
        parse_multiline_as_lines and edits the list it got in place; all getters must still
        return what they returned before."""
    h = dict(h)
    paras = [list(p) for p in paras]
    objs = [doc.header] + list(objs)
    extras = [{} for _ in objs]
    form = case["input"]
    for e in case.get("edits", []):
        lab = apply_edit(objs, h, paras, extras, e)
        if lab is None:
            labels.add("edit:not-applicable-skipped")
            continue
        labels.add(lab)
        got = expect_sequence(doc, h, paras, "edited", "the edited document (%s)" % lab, extras)
        if any(a is not b for a, b in zip(got, objs)):
            raise Violation("edited:paragraph-sequence", "an edit (%s) replaced a paragraph object" % lab)
        doc2, _ = dump_round(doc, h, paras, extras, form, "edited")
        labels.add("dumped-again-after-edit")

    op = perturb_op(case)
    n = 0
    for d in (doc2, doc):
        for k, o in enumerate(d.all_paragraphs()):
            if k == 0 and "license" not in h:
                continue
            n += perturb(C.parse_multiline_as_lines(o["License"]), op)
    if n:
        labels.add("decoded-license-lines-edited-by-caller:" + op)
        expect_sequence(doc2, h, paras, "after-caller-edited-decoded-lines(re-parsed-document)", "", extras)
        expect_sequence(doc, h, paras, "after-caller-edited-decoded-lines(held-document)", "", extras)


# ------------------------------------------------------------------------------------------
# the ' .' codec


def check_codec(case):
    L = case.get("lines")
    if not isinstance(L, list) or not all(_chars_ok(l) for l in L):
        return (False, ("invalid-case-skipped",))
    labels = set(["codec", "codec-lines:%d" % min(len(L), 4)])
    admissible = all(admissible_line(l) for l in L[1:])
    if not admissible:
        # nothing is promised about equality; the functions must still work
        labels.add("codec:inadmissible-line(no-equality-demanded)")
        enc = C.format_multiline_lines(list(L))
        try:
            C.parse_multiline_as_lines(enc)
        except MRFE:
            labels.add("codec:inadmissible-rejected")
        return (False, sorted(labels))
    for l in L[1:]:
        labels.add("codec-line:" + line_class(l))
    joined = "\n".join(L)

    enc = C.format_multiline_lines(list(L))
    if not isinstance(enc, str):
        raise Violation("codec:encode-type", "format_multiline_lines(%r) = %r" % (L, enc))
    try:
        dec = C.parse_multiline_as_lines(enc)
    except MRFE as e:
        raise Violation("codec:own-encoding-rejected", "%r encodes to %r which is rejected: %s" % (L, enc, e))
    if "\n".join(dec) != joined:
        raise Violation("codec:lines-not-restored", "%r -> %r -> %r" % (L, enc, dec))

    # string flavour: a final newline does not start a new line
    enc_s = C.format_multiline(joined)
    dec_s = C.parse_multiline(enc_s)
    if dec_s is None or not same_text(dec_s, joined):
        raise Violation("codec:string-not-restored", "%r -> %r -> %r" % (joined, enc_s, dec_s))

    # License: first line is the synopsis
    if L:
        l0 = C.License(L[0], "\n".join(L[1:]))
        s = l0.to_str()
        l1 = C.License.from_str(s)
        if l1 is None or l1.synopsis != L[0] or not same_text(l1.text, "\n".join(L[1:])):
            raise Violation("codec:license-not-restored", "%r -> %r -> %r" % (l0, s, l1))

    # the caller edits the list it was handed in place, then the same text is decoded again
    # (the law holds for every decode of an encoded text, not only for the first one)
    op = perturb_op(case)
    if perturb(dec, op):
        labels.add("codec:decoded-list-edited-by-caller:" + op)
        again = C.parse_multiline_as_lines(enc)
        if "\n".join(again) != joined:
            raise Violation("codec:lines-not-restored-by-a-later-decode",
                            "%r -> %r -> %r after the caller edited (%s) the list of the first decode"
                            % (L, enc, again, op))
        again_s = C.parse_multiline(enc)
        if again_s != joined:
            raise Violation("codec:string-not-restored-by-a-later-decode",
                            "%r -> %r -> %r after the caller edited (%s) a decoded list" % (L, enc, again_s, op))
        if L:
            l2 = C.License.from_str(enc)
            if l2 is None or l2.synopsis != L[0] or l2.text != "\n".join(L[1:]):
                raise Violation("codec:license-not-restored-by-a-later-decode",
                                "%r -> %r -> %r after the caller edited (%s) a decoded list" % (L, enc, l2, op))
    nontrivial = "" in L[1:] and any(l[:1] in (" ", "\t", ".") for l in L[1:])
    return (nontrivial, sorted(labels))


# ------------------------------------------------------------------------------------------
# list-valued properties


def check_list(case):
    field, items = case.get("field"), case.get("items")
    if field not in ("files", "contacts", "excluded") or not isinstance(items, list) or \
            not all(_chars_ok(e, "\t\n") for e in items):
        return (False, ("invalid-case-skipped",))
    if field == "files" and not items:
        return (False, ("invalid-case-skipped",))
    labels = set(["list", "list:" + field, "list-items:%s" % (len(items) if len(items) < 3 else "3+")])
    if field == "files":
        representable = all(e != "" and not any(ch.isspace() for ch in e) for e in items)
        want = tuple(items)
    else:
        representable = all(e.strip() != "" and "\n" not in e.strip() for e in items)
        want = tuple(e.strip() for e in items)     # documented: surrounding whitespace is stripped

    doc = C.Copyright()
    if field == "files":
        holder = C.FilesParagraph.create(["placeholder"], "c", C.License("L"))
        doc.add_files_paragraph(holder)
        attr = "files"
    else:
        holder = doc.header
        attr = "upstream_contact" if field == "contacts" else "files_excluded"
    try:
        setattr(holder, attr, list(items))
    except MRFE:
        if representable:
            raise Violation("list:representable-items-rejected", "%s = %r rejected" % (attr, items))
        labels.add("list:unrepresentable-rejected")
        return (False, sorted(labels))
    got = tuple(getattr(holder, attr) or ())
    if got != want:
        raise Violation("list:readback-differs" if representable else "list:unrepresentable-item-stored",
                        "%s = %r reads back as %r" % (attr, items, got))
    labels.add("list:accepted")
    if field == "files" and any(PUNCT.intersection(e) for e in items):
        labels.add("list:pattern-with-punctuation")
    if any(e != e.strip() for e in items):
        labels.add("list:items-with-surrounding-blanks")
    text = doc.dump()
    doc2 = reparse(text, "stringio")
    if field == "files":
        ps = list(doc2.all_files_paragraphs())
        if len(ps) != 1:
            raise Violation("reparsed:paragraph-count", "one Files paragraph dumped as %s" % short(text, 300))
        got2 = tuple(ps[0].files)
    else:
        got2 = tuple(getattr(doc2.header, attr) or ())
    if got2 != want:
        raise Violation("reparsed:%s" % ("files" if field == "files" else "header-list"),
                        "%s = %r dumped as %s reads back as %r" % (attr, items, short(text, 300), got2))
    if doc2.dump() != text:
        raise Violation("second-dump-differs", "%s then %s" % (short(text, 200), short(doc2.dump(), 200)))
    return (len(items) >= 2, sorted(labels))


def check(case):
    if not isinstance(case, dict):
        return (False, ("invalid-case-skipped",))
    k = case.get("kind")
    if k == "doc":
        return check_doc(case)
    if k == "parsed":
        return check_parsed(case)
    if k == "codec":
        return check_codec(case)
    if k == "list":
        return check_list(case)
    return (False, ("invalid-case-skipped",))


# ------------------------------------------------------------------------------------------
# generators

# Valid text that is NOT in a Unicode normalisation form: a letter followed by a combining mark
# (not NFC), singletons that every form replaces (ANGSTROM SIGN, OHM SIGN), conjoining Hangul jamo
# (not NFC), precomposed letters and syllables (not NFD), compatibility characters (not NFKC/NFKD).
# All of it is printable, none of it is white space: the property promises it back unchanged.
UNNORMALISED = ["e\u0301", "\u212b", "\u2126", "\u1112\u1161\u11ab", "A\u030a", "o\u0308\u0323", "\ufb01",
                "\u00b2", "\ud55c", "\u1e69", "\uff21", "\u0301"]
VIS = ("\u212b\u0301abz019.,:;#-*?()<>@/\\+=|&'\"_é漢𝒳ß[]{}!$%^~`"
       "\u0308\u1112\u1161\u11ab\ufb01\u2126")        # visible characters
VOCAB = ["e\u0301", "\u212b", "Copyright", "2014", "Some", "Guy", "GPL", "(c)", "foo.c", "<a@b.org>", "x:", "#1",
         ".", "-", "é漢", "𝒳", "ß", "a", "the", "*", "\\", "1.0,", "and/or", "\"q\"", "--", "..",
         "\u1112\u1161\u11ab", "A\u030a", "\ufb01\u00b2", "\ud55c", "Jos\u0065\u0301", "\u2126"]
vis = st.one_of(st.sampled_from(VOCAB), st.sampled_from(VOCAB),
                st.text(alphabet=st.sampled_from(VIS), min_size=1, max_size=4))
gap = st.sampled_from([" ", " ", "  ", "\t", " \t"])
core = st.builds(lambda w, gs: "".join(a + b for a, b in zip(w, gs + [""]))[:40],
                 st.lists(vis, min_size=1, max_size=3),
                 st.lists(gap, min_size=3, max_size=3)).map(lambda s: s.strip())
indent = st.sampled_from([" ", "  ", "\t", " \t", "    "])
trail = st.sampled_from([" ", "  ", "\t"])

text_line = st.one_of(
    st.just(""), st.just(""),
    core, core,
    st.builds(lambda i, c: i + c, indent, core),
    st.builds(lambda i, c: i + c, indent, core),
    st.builds(lambda c, t: c + t, core, trail),
    st.builds(lambda c: "." + c, core),
    st.builds(lambda c: "#" + c, core),
    st.sampled_from([". ", " .", "..", ".\t", "  .", ".a", "Files: *", "License: GPL",
                     "-----BEGIN PGP SIGNATURE-----", "#", "a:", ". .", "\t.", " #x"]),
).map(lambda l: ".." if l == "." else l)       # a lone '.' is outside the property's domain


@st.composite
def gen_text(draw, maxlines=6):
    lines = draw(st.lists(text_line, max_size=maxlines))
    k = draw(st.integers(0, 9))
    if k >= 2:
        while lines and lines[-1] == "":       # usual case: the text ends with a visible line
            lines.pop()
    text = "\n".join(lines)
    if k == 0 and lines:
        text += "\n"
    return text


synopsis = st.one_of(
    st.sampled_from(["GPL-2+", "MIT", "Apache-2.0", "GPL-2+ or MIT", "Expat", "X", "public-domain"]),
    core, st.just(""))


@st.composite
def gen_license(draw, maxlines=6):
    syn = draw(synopsis)
    text = draw(gen_text(maxlines))
    if syn == "" and text == "" and draw(st.integers(0, 3)) != 0:
        syn = "MIT"
    return [syn, text]


cont_line = st.one_of(
    st.builds(lambda i, c: i + c, indent, core),
    st.builds(lambda i, c, t: i + c + t, indent, core, trail),
    st.sampled_from([" .", " #c", "\t.", " 2014 é", " Files: x"]),
)


@st.composite
def gen_value(draw, maxcont=2):
    """Raw deb822 value: stripped first line (rarely empty) + continuation lines."""
    first = draw(st.one_of(core, core, core, st.sampled_from(["2014 Some Guy", "©", "x"]), st.just("")))
    conts = draw(st.lists(cont_line, max_size=maxcont))
    return "\n".join([first] + conts)


# A pattern is any run of visible characters: the space-separated Files field treats nothing but
# white space specially, so commas, semicolons, colons, quotes, brackets ... belong to the glob.
PATS = ",ab/.*?\\+é;:'\"[]{}()<>!#$%&=@^_`|~-\u212b\u0301\u1112\u1161;,"
pattern = st.one_of(st.sampled_from(["*", "debian/*", "src/*.c", "a?b", "\\*", "*.in", "Makefile"]),
                    st.text(alphabet=st.sampled_from(PATS), min_size=1, max_size=5),
                    st.text(alphabet=st.sampled_from(PATS), min_size=1, max_size=5),
                    st.builds(lambda a, p, b: a + p + b, st.sampled_from(["*", "a", "src/", "x."]),
                              st.sampled_from(list(",;:'\"[]{}()!#$%&=@^`|~") + UNNORMALISED),
                              st.sampled_from(["v", "*", "b.txt", ""])))
item = st.one_of(core, st.sampled_from(["A <a@b>", "http://x/y z", ".", "#x", "é 漢", "a\tb"]))


@st.composite
def gen_header(draw):
    h = {}
    for key, strat in (("name", core), ("contacts", st.lists(item, min_size=1, max_size=3)),
                       ("source", gen_value(1)), ("comment", gen_value(2)),
                       ("license", gen_license(3)), ("copyright", gen_value(2)),
                       ("excluded", st.lists(item, min_size=1, max_size=3))):
        if draw(st.integers(0, 2)) == 0:
            h[key] = draw(strat)
    return h


# long lists / long patterns: what a writer that folds, wraps or truncates lines would trip over
LONG_PATS = ["third-party/vendored-lib/*", "debian/patches/*-fix-something.patch", "src/a-b-c-d-e-f-g-h/*.c",
             "doc/reference-manual/chapter-??/*.xml", "x" * 40 + "-" + "y" * 45 + "/*", "tests/data/*-expected-output.txt",
             "po/*.po", "lib/really_long_directory_name_without_hyphens_at_all_for_seventy_five_characters/*",
             "é-漢/*-ß", "a-b", "-leading-hyphen/*", "m4/*.m4"]
pattern_list = st.one_of(st.lists(pattern, min_size=1, max_size=3), st.lists(pattern, min_size=1, max_size=3),
                         st.lists(st.one_of(st.sampled_from(LONG_PATS), pattern), min_size=3, max_size=12),
                         st.lists(st.sampled_from(LONG_PATS), min_size=1, max_size=4))
files_para = st.builds(lambda f, c, l, m: ["F", f, c, l, m],
                       pattern_list, gen_value(2), gen_license(),
                       st.one_of(st.none(), st.none(), gen_value(1)))
license_para = st.builds(lambda l, m: ["L", l, m], gen_license(), st.one_of(st.none(), st.none(), gen_value(1)))


HEADER_STRATS = {"name": core, "contacts": st.lists(item, min_size=0, max_size=3),
                 "source": gen_value(1), "comment": gen_value(2), "license": gen_license(3),
                 "copyright": gen_value(2), "excluded": st.lists(item, min_size=0, max_size=3)}
perturb_op_s = st.sampled_from(list(PERTURB_OPS))


def draw_edits(draw, h, paras):
    """0..3 edits of a document that holds header h and paragraphs paras (held order is not
    needed: indices are taken modulo).  Removals are aimed at what is present - fields of the
    header, comments, extra fields set by an earlier edit."""
    present = [k for k in HEADER_FIELDS if k in h]
    commented = [i for i, p in enumerate(paras) if p[-1] is not None]
    xs = []
    edits = []
    for _ in range(draw(st.sampled_from([1, 2, 0, 3, 1, 2]))):
        t = draw(st.sampled_from(["h-remove", "x-set", "p-comment-remove", "p-assign", "h-set",
                                  "x-del", "x-del", "h-remove", "p-comment-remove"]))
        if t == "x-del" and not xs:
            t = "x-set"
        if t == "p-comment-remove" and not commented:
            t = "p-comment-set" if paras else "h-remove"
        if t == "p-assign" and not paras:
            t = "h-set"
        if t == "h-remove" and not present:
            t = "h-set"
        if t == "h-remove":
            k = draw(st.sampled_from(present))
            present.remove(k)
            edits.append(["h", k, None])
        elif t == "h-set":
            k = draw(st.sampled_from(sorted(HEADER_FIELDS)))
            edits.append(["h", k, draw(HEADER_STRATS[k])])
            if k not in present:
                present.append(k)
        elif t == "p-comment-remove":
            i = draw(st.sampled_from(commented))
            commented.remove(i)
            edits.append(["p", i, "comment", None])
        elif t == "p-comment-set":
            i = draw(st.integers(0, len(paras) - 1))
            edits.append(["p", i, "comment", draw(gen_value(1))])
            if i not in commented:
                commented.append(i)
        elif t == "p-assign":
            i = draw(st.integers(0, len(paras) - 1))
            a = draw(st.sampled_from(["license", "copyright", "files", "license"]))
            if paras[i][0] != "F":
                a = "license"
            edits.append(["p", i, a, draw({"license": gen_license(3), "copyright": gen_value(1),
                                           "files": st.lists(pattern, min_size=1, max_size=3)}[a])])
        elif t == "x-set":
            i = draw(st.integers(0, len(paras)))
            name = draw(st.sampled_from(XNAMES))
            edits.append(["x", i, name, draw(gen_value(1))])
            if (i, name) not in xs:
                xs.append((i, name))
        else:
            i, name = draw(st.sampled_from(xs))
            xs.remove((i, name))
            edits.append(["x", i, name, None])
    return edits


@st.composite
def gen_doc(draw):
    case = {"kind": "doc",
            "input": draw(st.sampled_from(["lines", "stringio", "noeol", "bytes"])),
            "header": draw(gen_header()),
            "paras": [draw(st.one_of(files_para, files_para, license_para))
                      for _ in range(draw(st.sampled_from([2, 1, 3, 0, 1, 2, 4, 5, 3])))]}
    # the held order of a built document: Files paragraphs first (add_files_paragraph)
    held = [case["paras"][i] for i in held_order([], [p[0] for p in case["paras"]])]
    case["edits"] = draw_edits(draw, case["header"], held)
    case["perturb"] = draw(perturb_op_s)
    return case


@st.composite
def gen_parsed(draw):
    """A document to be written out and parsed: paragraphs of both kinds in any order."""
    para = st.one_of(files_para, license_para)
    case = {"kind": "parsed",
            "input": draw(st.sampled_from(["lines", "stringio", "noeol", "bytes"])),
            "header": draw(gen_header()),
            "paras": [draw(para) for _ in range(draw(st.sampled_from([3, 2, 4, 1, 0, 5, 6, 2, 3])))],
            "more": [draw(para) for _ in range(draw(st.sampled_from([0, 0, 1, 2, 0, 0])))]}
    allp = case["paras"] + case["more"]
    held = [allp[i] for i in held_order([p[0] for p in case["paras"]], [p[0] for p in case["more"]])]
    case["edits"] = draw_edits(draw, case["header"], held)
    case["perturb"] = draw(perturb_op_s)
    return case


codec_first = st.one_of(core, st.just(""), st.sampled_from([" ", ".", "\t", " x", "x "]))


@st.composite
def gen_codec(draw):
    lines = [draw(codec_first)] + draw(st.lists(text_line, min_size=draw(st.sampled_from([0, 1, 2, 3])),
                                                max_size=7))
    # (Hypothesis favours the ends of a sampled_from list: the rare choices sit in the middle)
    k = draw(st.sampled_from([9] * 10 + [0, 1, 1, 2, 2, 2] + [9] * 16))
    if k == 0:
        lines = []
    elif k == 1:
        lines = lines[:1]
    elif k == 2:         # one line for which the property promises nothing
        i = draw(st.integers(1, len(lines)))
        lines.insert(i, draw(st.sampled_from([" ", ".", "\t", "  "])))
    return {"kind": "codec", "lines": lines, "perturb": draw(perturb_op_s)}

bad_item = st.sampled_from(["", " ", "a b", "a\nb", "\t", "a\n", "\na", " a", "a ", "a\tb", "\n"])
gen_list = st.one_of(
    st.builds(lambda it: {"kind": "list", "field": "files", "items": it},
              st.lists(st.one_of(pattern, pattern, pattern, pattern, bad_item), min_size=1, max_size=4)),
    st.builds(lambda f, it: {"kind": "list", "field": f, "items": it},
              st.sampled_from(["contacts", "excluded"]),
              st.lists(st.one_of(item, item, item, item, bad_item), min_size=0, max_size=4)),
)


def sources(tier):
    if tier == "quick":
        return [Hyp("documents", gen_doc(), 300, shards=8),
                Hyp("parsed-documents", gen_parsed(), 200, shards=4),
                Hyp("codec", gen_codec(), 900, shards=6),
                Hyp("lists", gen_list, 500, shards=2)]
    return [Hyp("documents", gen_doc(), 6000, shards=16),
            Hyp("parsed-documents", gen_parsed(), 2500, shards=8),
            Hyp("codec", gen_codec(), 8000, shards=8),
            Hyp("lists", gen_list, 4000, shards=4)]
