"""C09 - Deb822 mappings stay ordered, case-insensitive and case-preserving in any history.

Three kinds of case, all plain JSON, all executed by step-by-step interpreters that compare the
real object with a list model (by default after *every* step):

``{"kind": "deb822", "init": {"cls": "Deb822"|"Deb822Dict", "how": HOW, "items": [[key, value]..]},
   "watch": "all"|"keys"|"blind", "ops": [[op, args..], ..]}``
    HOW: empty | dict | pairs | mapping | text | lines | bytes | file | iterpara | backed
    A *key operand* is a literal key (str), an index ``i`` (the spelling stored for the
    ``i % n``-th live key), ``[i, "l"|"u"|"s"]`` (that spelling lower-/upper-/swap-cased) or
    ``["x", i, ""|"l"|"u"|"s"]`` (the spelling the ``i % g``-th most recently deleted and still
    absent name had when it was deleted, possibly re-cased); with no live / no deleted key such an
    operand makes the operation inapplicable and it is skipped.
    WATCH is the *observation policy* of the history (what the harness looks at between the steps;
    looking is not neutral for an object that decodes, caches or materialises on access):
      all   - (default) after every step keys, order, len, membership, every value (by the stored
              spelling and case variants) and dump() are compared with the model;
      keys  - after every step only list(d), len(d) and membership are compared: no value is read;
      blind - nothing is looked at between the steps.
    Under every policy the operations of the history check their own result (``get``/``getd``/
    ``setdefault``/``pop``/``popd`` the value or the KeyError, ``in`` the membership, ``obs`` a full
    observation) and the history ends with one full observation.
    ops: set K v | del K | get K | in K | getd K | pop K | popd K | popitem | setdefault K v |
         update HOW [[K, v]..] | first K | last K | before K R | after K R |
         sort [MODE [ranks]] | copy [SIDE] | reparse FORM [SIDE] | clear | obs
    ``sort`` MODE names a key function of the table SORT_KEYS (default: no key argument).  The same
    function is applied by the library to the objects it holds and by the model to the plain
    spellings (``list.sort(key=f)``); besides keys that fold or ignore the case (lower-reversed,
    len, a rank table) there are keys that *return, embed or compare the object they were given*
    (identity, (rank, name), (len, name), [name], min/max with a constant, ``name < "a"``, str(name),
    swapcase, formatting): for those the reference order is Python's order of str - case-sensitive.
    ``copy`` and ``reparse`` (dump, then parse the text in form FORM) make a second mapping.  SIDE
    says on which of the two the history goes on: "copy" (default) - on the new object, the old one
    is set aside; "orig" - on the old object, the new one is set aside.  An object set aside is a
    *bystander*: it stays alive together with a clone of the model taken at that moment, nothing
    is ever done to it again, and it is observed together with the live object (same policy: after
    every step under "all", keys only under "keys", only by ``obs`` and at the end under "blind")
    and has to equal that clone each time.  The last MAX_GHOSTS bystanders are kept, so copies of
    copies and several forks of one object are alive at once.  (Their violation signatures carry
    the prefix ``ghost-`` and the way the bystander came about: copy / reparse = the old object,
    copy-result / reparse-result = the new one.)

``{"kind": "oset", "ci": bool, "init": [items], "ops": [...]}`` - debian._util.OrderedSet directly
    (items wrapped in _CaseInsensitiveString when ``ci``); ops add X | remove X | first X | last X |
    before X R | after X R | in X | extend [X..]

``{"kind": "llist", "init": [values], "ops": [...]}`` - debian._util.LinkedList directly; node
    operands are indices modulo the current length; ops append v | head v | ibefore v i |
    iafter v i | remove i | pop | extend [v..] | clear
"""
import io
import itertools

from hypothesis import strategies as st

from ..core import Violation, Enum, Hyp, Custom, short
from ..model.c09_cilist import ListModel, posclass, variant

from debian.deb822 import Deb822, Deb822Dict
from debian._util import OrderedSet, LinkedList, _CaseInsensitiveString

ID = "C09"
LEVEL = "exploration"
RULE = ("cases are operation histories ([op, args..] lists; key/node operands are literals or indices "
        "modulo the live count) over (a) Deb822/Deb822Dict started empty, from a dict, from pairs, "
        "from text in several forms or backed by a parsed mapping, (b) debian._util.OrderedSet, (c) "
        "debian._util.LinkedList; enumerated: every history of <=3 (quick) / <=4 (thorough) steps over "
        "a fixed index-operand alphabet from a 3-element start (llist: <=4 / <=5); generated: "
        "Hypothesis histories of up to 30 (quick) / 40 (thorough) steps over a 24-spelling / 12-name "
        "key alphabet; thorough adds a RuleBasedStateMachine driving the same interpreter. The model "
        "is compared after every step (observation policy 'all'); separate enumerated and generated "
        "sources run deb822 histories under the policies 'keys' (order/len/membership only between "
        "the steps, no value read) and 'blind' (nothing read between the steps), with an op mix rich in "
        "lookups (d[k], get, in, setdefault, pop with/without default, del, order_first) of keys that "
        "were just deleted - in particular deleted without their value ever having been read since "
        "the assignment / parse; every history ends with a full observation. Two live mappings: copy and "
        "reparse take a side - the history goes on with the new object (the old one is set aside) or with "
        "the old one (the new one is set aside); the last 3 objects set aside stay alive as bystanders and "
        "are compared, at every observation the policy allows and at the end, with the model as it was when "
        "they were set aside; both sides are in the enumerated alphabets (all three policies) and in the "
        "generated mixes, with motifs 'fork, then re-assign / delete / move / sort on the live side'. Sorting: "
        "sort_fields() and sort_fields(key=f) for 17 key functions f, the same f being applied to the model's "
        "plain spellings - 13 of them return, embed (tuple/list with a rank, the length or the initial) or "
        "compare (<, >=, min/max against a constant) the object they are given or convert it without folding "
        "the case; all are in the generated mixes, and an enumerated source runs each of them (rank tables: 3) "
        "on every order of 4 names from 4 mixed-case pools (str order and case-folded order differ) from the "
        "14 start states, two sorts in a row (stability) and a sort between a structural operation before and "
        "after it; label sort:name-key/case-decides = the reference order differs from what the key would give "
        "on case-folded names. Non-trivial (deb822) = the history contains at least one "
        "successful re-order, one successful deletion and one access to a live key through a "
        "spelling other than the stored one; (oset/llist) = at least one successful removal and one "
        "successful re-order/insertion that is not a plain append; distinct = distinct canonical JSON")
ASSUMPTIONS = [
    "reference model: a Python list of [spelling, value] searched by str.lower() (model/c09_cilist.py)",
    "keys are ASCII field names (Policy 5.1), values printable single-line text without leading or "
    "trailing blanks, so that dump -> parse is the identity on values (value fidelity is C02's business)",
    "which pair popitem() removes is not specified: any pair of the model is accepted",
    "sort_fields(key=f) is judged against list.sort(key=f) over the model's plain str spellings ('same "
    "semantics as for sorted'; the names keep their case and folding it is the caller's business, says the "
    "docstring): a key function that returns its argument, or a container holding it, orders the names as str "
    "orders them (case-sensitively, stable); key functions are total and deterministic and only use the str "
    "interface of their argument; live names differ after case folding, so equality of two arguments never "
    "decides a comparison",
    "re-ordering an absent key relative to itself may raise KeyError or ValueError (the statement "
    "promises both)",
    "observation policies: a history may be run with the harness reading everything after every step "
    "('all'), only keys/len/membership ('keys') or nothing ('blind') between the steps; the verdicts are "
    "the same model comparisons, made by the history's own operations and by one full observation at the "
    "end, so a sparse policy can only see fewer states, never demand more",
    "the labels lookup:*never-read / del:never-read describe what the harness itself has read (a value is "
    "'never read' when no lookup, view or dump was made by the harness since its last assignment or since "
    "the object was created); they are coverage labels and take no part in a verdict",
    "copy() and a dump/parse cycle yield a mapping of its own: when a history goes on with one of the two "
    "objects (either one, case argument SIDE), the other is kept alive as a bystander, nothing is done to it "
    "any more, and it has to keep equalling the model as it was at that moment (its own 'sequence of "
    "operations' ended there); up to 3 bystanders are kept and observed under the policy of the history",
    "Hypothesis 6.168 generators and stateful runner; sha1 for distinctness",
]
EXHAUSTIVE = {
    "quick": "every history of 1..3 steps over the index-operand op alphabets, each from a 3-element "
             "start: deb822 (35 ops, copy and dump/parse continued on either object; paragraph parsed from lines; "
             "from a dict: 1..2 steps), "
             "OrderedSet (29 ops, case-insensitive and plain items), and of 1..4 steps for LinkedList (13 ops); "
             "sparse observation: every history of 1..2 steps over a 20-op delete/lookup/copy alphabet from each of "
             "the 14 start states under the policies keys and blind, and of 3 steps from 5 start states "
             "(empty, dict, parsed text, parsed by iter_paragraphs, Deb822Dict from pairs); sort keys: each of "
             "the 21 sort operations (15 key functions + 2 ranked ones x 3 rank tables) on all 24 orders of 4 names "
             "x 4 mixed-case pools, each order from every 4th of the 14 start states; for 2 orders per pool every "
             "pair of sorts and every (10 ops before) x sort x (7 ops after) x identity-sort history",
    "thorough": "every history of 1..4 steps over the index-operand op alphabets, each from a 3-element "
                "start: deb822 (35 ops, copy and dump/parse continued on either object; paragraph parsed from lines; "
                "from a dict: 1..3 steps), "
                "OrderedSet (29 ops, case-insensitive and plain items), and of 1..5 steps for LinkedList (13 ops); "
                "sparse observation: every history of 1..3 steps over a 20-op delete/lookup/copy alphabet from each "
                "of the 14 start states under the policies keys and blind, and of 4 steps from 5 start states "
                "(empty, dict, parsed text, parsed by iter_paragraphs, Deb822Dict from pairs); sort keys: each of "
                "the 21 sort operations (15 key functions + 2 ranked ones x 3 rank tables) on all 24 orders of 4 names "
                "x 4 mixed-case pools from all 14 start states; for every order every pair of sorts and every "
                "(10 ops before) x sort x (7 ops after) x identity-sort history",
}
BUDGET = {"quick": 400, "thorough": 2400}

KEYS = ["A", "a", "Ab", "AB", "ab", "b", "B", "X-y", "x-Y", "zz",
        "C", "c", "Dd", "dD", "e1", "E1", "Ff", "fF", "g-H", "G-h", "i", "I", "J2", "j2"]
NAMES = sorted(set(k.lower() for k in KEYS))
_KEYCHARS = frozenset(chr(c) for c in range(0x21, 0x7f)) - frozenset(":")
MAX_GHOSTS = 3
SIDES = ("copy", "orig")


def valid_key(k):
    return (isinstance(k, str) and 0 < len(k) <= 40 and k[0] not in "#-"
            and all(c in _KEYCHARS for c in k))


def valid_value(v):
    return isinstance(v, str) and v.isprintable() and v == v.strip()


def is_index(x):
    return isinstance(x, int) and not isinstance(x, bool)


def plain(x):
    """Exact ``str`` of a key the library hands out (a _CaseInsensitiveString compares
    case-insensitively, which would hide spelling differences; its str() is the original text)."""
    return str(x) if isinstance(x, str) else x


def bounded(it, n):
    """At most n+2 items: corrupted links may form a cycle; the oracle must not hang on it."""
    return list(itertools.islice(it, n + 2))


def classify(got, exp, norm):
    """Name how a key sequence differs from the expected one (None if it does not)."""
    if got == exp:
        return None
    if any(not isinstance(g, str) for g in got):
        return "key-type"
    gl, el = [norm(g) for g in got], [norm(e) for e in exp]
    if gl == el:
        return "spelling-differs"
    if len(set(gl)) != len(gl):
        return "duplicate-key"
    if sorted(gl) == sorted(el):
        return "order-differs"
    if set(gl) < set(el):
        return "key-missing"
    if set(gl) > set(el):
        return "key-extra"
    return "keys-differ"


def target_class(after, j, n):
    """Where a relative re-insertion lands, judged on the ``n`` elements left once the moved one is
    out: what matters to the list bookkeeping is whether the head or the tail changes."""
    if after:
        return "after-tail" if j == n - 1 else "after-head" if j == 0 else "after-mid"
    return "before-head" if j == 0 else "before-tail" if j == n - 1 else "before-mid"


def expected_dump(pairs):
    return "".join("%s: %s\n" % (k, v) if v else "%s:\n" % k for k, v in pairs)


def rank_key(ranks):
    def f(x):
        return ranks[sum(map(ord, x.lower())) % len(ranks)]
    return f


def _same(f):
    return lambda ranks: (f, f)


def _rank_name(ranks):
    rk = rank_key(ranks)
    return ((lambda x: (rk(x), x)),) * 2


# mode -> (key function handed to sort_fields, key function of the reference).  The reference is
# ``list.sort(key=f)`` over the plain spellings (sort_fields: "same semantics as for sorted"; the
# names keep their case and the caller "is recommended to use lower() to normalise" - a key
# function that does not, orders the spellings as Python orders str: case-sensitively).  Both
# columns are the *same* function wherever a key function is passed at all: what is under test is
# that the object the library hands to f behaves, in f and in the comparison of f's results, as the
# spelling itself would.
SORT_KEYS = {
    "default": lambda ranks: (None, lambda s: s.lower()),
    "ranks": lambda ranks: (rank_key(ranks), rank_key(ranks)),
    "revlower": _same(lambda x: x.lower()[::-1]),
    "len": _same(len),
    "str": _same(str),                      # the case-preserved name, compared case-sensitively
    # key functions whose result *is* or *contains* the very object they were given
    "ident": _same(lambda x: x),
    "rank-name": _rank_name,                # a priority table with the name as tie-breaker
    "len-name": _same(lambda x: (len(x), x)),
    "initial-name": _same(lambda x: (x[:1].lower(), x)),
    "in-list": _same(lambda x: [x]),
    "name-len": _same(lambda x: (x, len(x))),
    "clamp": _same(lambda x: min(max(x, "C"), "e")),      # the argument or a constant, via its < / >
    # key functions that compare their argument with a constant themselves
    "pivot": _same(lambda x: x < "a"),
    "pivot-right": _same(lambda x: ("M" < x, "c" >= x)),
    # other str methods / conversions of the argument, none of which folds the case
    "swapcase": _same(lambda x: x.swapcase()),
    "format": _same(lambda x: "%s|%d" % (x, len(x))),
    "concat": _same(lambda x: x + "."),
}
RANKED_SORTS = ("ranks", "rank-name")
NAME_SORTS = ("ident", "rank-name", "len-name", "initial-name", "in-list", "name-len", "clamp", "pivot",
              "pivot-right", "str", "swapcase", "format", "concat")
PLAIN_SORTS = sorted(m for m in SORT_KEYS if m not in RANKED_SORTS)


# ------------------------------------------------------------------------------------------
# observation shared by the live object and the retained older objects


def observe_mapping(d, model, fam, has_dump, full=False, ghost=None, turn=0, values=True):
    """Compare ``d`` with the model.  ``values=False`` is the keys-only observation: iteration, len
    and membership, but no lookup, no view of the values and no dump."""
    def sig(what):
        return ("ghost-" + what + "@" + ghost) if ghost else (what + "@" + fam)

    pairs = model.pairs
    n = len(pairs)
    exp = [p[0] for p in pairs]
    got = [plain(k) for k in bounded(iter(d), n)]
    what = classify(got, exp, str.lower)
    if what:
        raise Violation(sig(what), "list(d) = %s, model %s" % (short(got), short(exp)))
    ln = len(d)
    if ln != n:
        raise Violation(sig("len-differs"), "len(d) = %r with keys %s" % (ln, short(exp)))
    # every live key is looked up by its stored spelling and by case variants (one variant per
    # step in turn, all three in a full observation); absent names must be absent in any case
    modes = "lus" if full else "lus"[turn % 3]
    for k, v in pairs:
        for q in [k] + [variant(k, mo) for mo in modes]:
            if not values:
                if q not in d:
                    raise Violation(sig("membership-differs"), "%r not in d; model %s" % (q, short(pairs)))
                continue
            try:
                gv = d[q]
            except KeyError:
                raise Violation(sig("lookup-fails"), "d[%r] raises KeyError; model %s" % (q, short(pairs)))
            if gv != v or type(gv) is not str:
                raise Violation(sig("value-differs"), "d[%r] = %r, model %r (%s)" % (q, gv, v, short(pairs)))
            if q not in d:
                raise Violation(sig("membership-differs"), "%r not in d; model %s" % (q, short(pairs)))
            if full and d.get(q) != v:
                raise Violation(sig("value-differs"), "d.get(%r) = %r, model %r" % (q, d.get(q), v))
    live = set(p[0].lower() for p in pairs)
    for name in NAMES:
        if name in live:
            continue
        q = name.upper() if turn & 1 else name
        if q in d:
            raise Violation(sig("membership-differs"), "%r in d; model %s" % (q, short(pairs)))
        if not full or not values:
            continue
        if d.get(q, None) is not None:
            raise Violation(sig("membership-differs"), "d.get(%r) = %r; model %s" % (q, d.get(q), short(pairs)))
        try:
            gv = d[q]
        except KeyError:
            pass
        else:
            raise Violation(sig("membership-differs"), "d[%r] = %r for an absent key; model %s" % (q, gv, short(pairs)))
    if not values:
        ks = list(d.keys())
        if [plain(k) for k in ks] != exp:
            raise Violation(sig("views-differ"), "keys() %s, model %s" % (short(ks), short(exp)))
        return
    if has_dump:
        text = d.dump()
        if text != expected_dump(pairs):
            raise Violation(sig("dump-differs"), "dump() = %s, model %s" % (short(text), short(pairs)))
    if not full:
        return
    ks, vs, its = list(d.keys()), list(d.values()), list(d.items())
    if [plain(k) for k in ks] != exp or vs != [p[1] for p in pairs] or \
            [[plain(k), v] for k, v in its] != [list(p) for p in pairs]:
        raise Violation(sig("views-differ"), "keys() %s values() %s items() %s, model %s" % (
            short(ks), short(vs), short(its), short(pairs)))
    if [plain(k) for k in d] != exp:
        raise Violation(sig("order-differs"), "second iteration differs")
    if has_dump:
        text = expected_dump(pairs)
        b = io.BytesIO()
        d.dump(b)
        t = io.StringIO()
        d.dump(t, text_mode=True)
        if b.getvalue() != text.encode("utf-8") or t.getvalue() != text or str(d) != text:
            raise Violation(sig("dump-differs"), "dump(fd)/str() disagree with dump(): %s / %s / %s" % (
                short(b.getvalue()), short(t.getvalue()), short(str(d))))


# ------------------------------------------------------------------------------------------
# kind "deb822"


class Deb822Session(object):
    FAMILY = {"set": "write", "setdefault": "write", "update": "write",
              "del": "delete", "pop": "delete", "popd": "delete", "popitem": "delete", "clear": "delete",
              "get": "read", "in": "read", "getd": "read", "obs": "read",
              "first": "reorder", "last": "reorder", "before": "reorder", "after": "reorder",
              "sort": "sort", "copy": "copy", "reparse": "reparse"}
    ARITY = {"set": (2,), "setdefault": (2,), "update": (2,), "del": (1,), "pop": (1,), "popd": (1,),
             "popitem": (0,), "clear": (0,), "get": (1,), "in": (1,), "getd": (1,), "obs": (0,),
             "first": (1,), "last": (1,), "before": (2,), "after": (2,), "sort": (0, 1, 2),
             "copy": (0, 1), "reparse": (0, 1, 2)}

    WATCH = ("all", "keys", "blind")

    def __init__(self, init, watch="all"):
        self.watch = watch if watch in self.WATCH else "all"
        self.labels = set(["watch:" + self.watch])
        self.m = ListModel(ci=True)
        self.ghosts = []          # bystanders: [object, model clone, has_dump, how it came about]
        self.gone = []            # lower-cased names deleted and still absent, most recent first
        # what the harness itself has looked at (coverage labels only, never part of the verdict):
        # names whose value it has not asked for since the last assignment / since the object
        # exists, and the absent names that were deleted in that condition
        self.unread = set()
        self.gone_unread = set()
        self.n_reorder = self.n_delete = self.n_variant = 0
        self.prev = ("init",)     # the last structural mutation
        self.deleted = {}         # lower-cased name -> spelling it had when it was deleted
        self.step_no = 0
        self.applied = 0
        self.maxlen = 0
        self.d = self.build(init if isinstance(init, dict) else {})
        self.has_dump = hasattr(self.d, "dump")
        self.unread = set(s.lower() for s in self.m.keys())
        self.observe("init", full=True)

    # -- construction -----------------------------------------------------------------------
    def build(self, init):
        cls = Deb822Dict if init.get("cls") == "Deb822Dict" else Deb822
        how = init.get("how", "empty")
        items = []
        for it in init.get("items") or []:
            if isinstance(it, list) and len(it) == 2 and valid_key(it[0]) and valid_value(it[1]):
                items.append((it[0], it[1]))
        textual = ("text", "lines", "bytes", "file", "iterpara")
        if cls is Deb822Dict and how in textual:
            how = "pairs"
        if cls is Deb822 and how == "pairs":
            how = "mapping"
        if how not in textual + ("empty", "dict", "pairs", "mapping", "backed"):
            how = "dict"
        if how == "empty":
            items = []
        # a dict keeps the position of the first and the value of the last of *identical* keys;
        # what the library then sees is that dict's items, assigned one after the other
        for k, v in (dict(items).items() if how == "dict" else items):
            self.m.set(k, v)
        self.labels.add("init:%s/%s" % (cls.__name__, how))
        if len(self.m) != len(items):
            self.labels.add("init:duplicate-names")
        lines = ["%s: %s" % (k, v) if v else "%s:" % k for k, v in items]
        text = "".join(l + "\n" for l in lines)
        if how == "empty":
            return cls()
        if how == "dict":
            return cls(dict(items))
        if how == "pairs":
            return cls(list(items))
        if how == "mapping":
            return cls(Deb822Dict(list(items)))
        if how == "backed":
            return cls(_parsed=Deb822Dict(list(items)))
        if how == "text":
            return cls(text)
        if how == "lines":
            return cls(lines)
        if how == "bytes":
            return cls(text.encode("utf-8"))
        if how == "file":
            return cls(io.StringIO(text))
        if items:
            paras = list(Deb822.iter_paragraphs(text))
            if len(paras) != 1:
                raise Violation("paragraph-count@init", "%d paragraphs from %s" % (len(paras), short(text)))
            return paras[0]
        return cls(text)

    # -- helpers ----------------------------------------------------------------------------
    def key(self, x):
        n = len(self.m)
        if isinstance(x, str):
            return x if valid_key(x) else None
        if is_index(x):
            return self.m.pairs[x % n][0] if n else None
        if isinstance(x, list) and len(x) == 2 and is_index(x[0]) and isinstance(x[1], str):
            return variant(self.m.pairs[x[0] % n][0], x[1]) if n else None
        if isinstance(x, list) and len(x) == 3 and x[0] == "x" and is_index(x[1]) and isinstance(x[2], str):
            if not self.gone:
                return None
            return variant(self.deleted[self.gone[x[1] % len(self.gone)]], x[2])
        return None

    def touch(self, k):
        i = self.m.find(k)
        if i is not None and self.m.pairs[i][0] != k:
            self.n_variant += 1
            self.labels.add("variant-access")
        return i

    def ctx(self):
        return "step %d, model before %s" % (self.step_no, short(self.m.pairs, 200))

    def must_raise_keyerror(self, fam, what, fn):
        try:
            r = fn()
        except KeyError:
            self.labels.add("err:KeyError")
            return
        raise Violation("missing-key-accepted@" + fam, "%s returned %r instead of raising KeyError; %s" % (
            what, r, self.ctx()))

    def must_succeed(self, fam, what, fn):
        try:
            return fn()
        except KeyError as e:
            raise Violation("keyerror-on-present-key@" + fam, "%s raised KeyError(%s); %s" % (what, e, self.ctx()))

    def fresh_object(self):
        self.unread = set(s.lower() for s in self.m.keys())
        self.gone_unread.clear()

    def retire(self, fam):
        self.ghosts.append([self.d, self.m.clone(), self.has_dump, fam])
        del self.ghosts[:-MAX_GHOSTS]

    def fork(self, new, what, side):
        """``new`` was made from the live object by ``what`` (copy / reparse); both stay alive.
        The history goes on with one of them, the other becomes a bystander that has to stay as
        the model is now."""
        if side == "orig":
            self.ghosts.append([new, self.m.clone(), hasattr(new, "dump"), what + "-result"])
            del self.ghosts[:-MAX_GHOSTS]
        else:
            self.retire(what)
            self.d = new
            self.has_dump = hasattr(new, "dump")
            self.fresh_object()
            self.prev = (what,)
        self.labels.add(what)
        self.labels.add("%s:continue-on-%s" % (what, "original" if side == "orig" else "new-object"))
        if len(self.ghosts) >= 2:
            self.labels.add("bystanders>=2")
        if len(set(g[3] for g in self.ghosts)) >= 2:
            self.labels.add("bystanders:mixed-kinds")

    def observe(self, fam, full=False, force=False):
        """The observation between the steps, as far as the policy of this history allows it;
        ``force`` is for the observations that belong to the history itself (op ``obs``, the end)."""
        if len(self.m) > self.maxlen:
            self.maxlen = len(self.m)
        if self.watch == "blind" and not force:
            return
        values = force or self.watch == "all"
        observe_mapping(self.d, self.m, fam, self.has_dump, full=full, turn=self.step_no, values=values)
        for obj, model, has_dump, why in self.ghosts:
            observe_mapping(obj, model, fam, has_dump, full=full, ghost=why, turn=self.step_no, values=values)
        if values:
            self.unread.clear()

    def looked_up(self, opname, k, i):
        """Coverage of the interplay between reading and deleting (labels only)."""
        low = k.lower()
        if i is not None:
            if low in self.unread:
                self.labels.add("lookup:live-never-read")
            if opname != "in":
                self.unread.discard(low)
        elif low in self.gone_unread:
            self.labels.add("lookup:deleted-never-read/" + opname)
        elif low in self.gone:
            self.labels.add("lookup:deleted/" + opname)

    # -- the interpreter --------------------------------------------------------------------
    def step(self, op):
        self.step_no += 1
        if not (isinstance(op, list) and op and isinstance(op[0], str) and op[0] in self.FAMILY
                and len(op) - 1 in self.ARITY[op[0]]):
            self.labels.add("skipped:malformed-op")
            return
        fam = self.FAMILY[op[0]]
        if getattr(self, "op_" + op[0])(*op[1:]) is False:
            self.labels.add("skipped:inapplicable")
            return
        self.applied += 1
        if self.ghosts and fam in ("write", "delete", "reorder", "sort"):
            for g in self.ghosts:
                self.labels.add("kept:%s/live-%s" % (g[3], fam))
        self.observe(fam, full=(op[0] == "obs"), force=(op[0] == "obs"))

    def finish(self):
        self.observe("finish", full=True, force=True)
        if self.maxlen >= 5:
            self.labels.add("len>=5")
        if self.applied >= 10:
            self.labels.add("steps>=10")
        nontrivial = self.n_reorder >= 1 and self.n_delete >= 1 and self.n_variant >= 1
        return (nontrivial, sorted(self.labels))

    # writes
    def appended(self, k):
        low = k.lower()
        if low in self.deleted:
            self.labels.add("seq:del>reinsert")
            if self.deleted[low] != k:
                self.labels.add("seq:del>reinsert-other-spelling")
        if self.prev[0] == "del" and self.prev[1] in ("tail", "only"):
            self.labels.add("seq:del-%s>append" % self.prev[1])
        if self.prev[0] == "reorder":
            self.labels.add("seq:reorder>append")
        self.prev = ("append", low)
        if low in self.gone:
            self.gone.remove(low)
        self.gone_unread.discard(low)

    def op_set(self, K, v):
        k = self.key(K)
        if k is None or not valid_value(v):
            return False
        i = self.touch(k)
        self.d[k] = v
        self.unread.add(k.lower())
        if self.m.set(k, v):
            self.appended(k)
        elif self.m.pairs[i][0] != k:
            self.labels.add("set:existing-other-spelling")

    def op_setdefault(self, K, v):
        k = self.key(K)
        if k is None or not valid_value(v):
            return False
        i = self.touch(k)
        self.looked_up("setdefault", k, i)
        try:
            r = self.d.setdefault(k, v)
        except KeyError as e:
            raise Violation("keyerror-unexpected@write", "setdefault(%r, %r) raised KeyError(%s); %s" % (
                k, v, e, self.ctx()))
        exp = v if i is None else self.m.pairs[i][1]
        if r != exp:
            raise Violation("value-differs@write", "setdefault(%r, %r) returned %r, expected %r; %s" % (
                k, v, r, exp, self.ctx()))
        if i is None:
            self.m.set(k, v)
            self.unread.add(k.lower())
            self.appended(k)

    def op_update(self, how, pairs):
        if not isinstance(pairs, list):
            return False
        res = []
        for p in pairs:
            if isinstance(p, list) and len(p) == 2:
                k = self.key(p[0])
                if k is not None and valid_value(p[1]):
                    res.append((k, p[1]))
        if how == "pairs":
            self.d.update(list(res))
            seq = res
        elif how == "kwargs":
            self.d.update(**dict(res))
            seq = list(dict(res).items())
        elif how == "mapping":
            other = Deb822Dict(list(res))
            self.d.update(other)
            seq = list(other.items())
        else:
            self.d.update(dict(res))
            seq = list(dict(res).items())
        self.labels.add("update:%d" % min(len(seq), 2))
        for k, v in seq:
            self.touch(k)
            self.unread.add(k.lower())
            if self.m.set(k, v):
                self.appended(k)

    # deletions
    def removed(self, i, k, read=False):
        n = len(self.m)
        pos = posclass(i, n)
        spelling = self.m.delete(i)[0]
        low = k.lower()
        self.deleted[low] = spelling
        if low in self.gone:
            self.gone.remove(low)
        self.gone.insert(0, low)
        if low in self.unread and not read:
            self.gone_unread.add(low)
            self.labels.add("del:never-read")
        self.unread.discard(low)
        self.n_delete += 1
        self.labels.add("del:" + pos)
        if self.prev[0] == "reorder" and self.prev[1] == k.lower():
            self.labels.add("seq:reorder>del-same-key")
        self.prev = ("del", pos, k.lower())

    def op_del(self, K):
        k = self.key(K)
        if k is None:
            return False
        i = self.touch(k)

        def f():
            del self.d[k]
        if i is None:
            self.looked_up("del", k, i)
            return self.must_raise_keyerror("delete", "del d[%r]" % k, f)
        self.must_succeed("delete", "del d[%r]" % k, f)
        self.removed(i, k)

    def op_pop(self, K, default=False):
        k = self.key(K)
        if k is None:
            return False
        i = self.touch(k)
        if i is None:
            self.looked_up("popd" if default else "pop", k, i)
            if default:
                try:
                    r = self.d.pop(k, "dflt")
                except KeyError as e:
                    raise Violation("keyerror-despite-default@delete", "pop(%r, 'dflt') raised KeyError(%s); %s" % (
                        k, e, self.ctx()))
                if r != "dflt":
                    raise Violation("value-differs@delete", "pop(%r, 'dflt') = %r on an absent key; %s" % (k, r, self.ctx()))
                return None
            return self.must_raise_keyerror("delete", "d.pop(%r)" % k, lambda: self.d.pop(k))
        r = self.must_succeed("delete", "d.pop(%r)" % k,
                              (lambda: self.d.pop(k, "dflt")) if default else (lambda: self.d.pop(k)))
        if r != self.m.pairs[i][1]:
            raise Violation("value-differs@delete", "pop(%r) = %r, model %r; %s" % (k, r, self.m.pairs[i][1], self.ctx()))
        self.removed(i, k, read=True)

    def op_popd(self, K):
        return self.op_pop(K, default=True)

    def op_popitem(self):
        if not len(self.m):
            return self.must_raise_keyerror("delete", "d.popitem()", self.d.popitem)
        r = self.must_succeed("delete", "d.popitem()", self.d.popitem)
        if not (isinstance(r, tuple) and len(r) == 2 and [plain(r[0]), r[1]] in self.m.pairs):
            raise Violation("value-differs@delete", "popitem() = %r is not a pair of the model; %s" % (r, self.ctx()))
        self.removed(self.m.find(r[0]), plain(r[0]), read=True)

    def op_clear(self):
        self.d.clear()
        for s, _ in self.m.pairs:
            low = s.lower()
            self.deleted[low] = s
            if low in self.gone:
                self.gone.remove(low)
            self.gone.insert(0, low)
        self.unread.clear()
        if len(self.m):
            self.n_delete += 1
            self.labels.add("del:clear")
            self.prev = ("del", "only", "")
        self.m.clear()

    # reads
    def op_get(self, K):
        k = self.key(K)
        if k is None:
            return False
        i = self.touch(k)
        self.looked_up("get", k, i)
        if i is None:
            return self.must_raise_keyerror("read", "d[%r]" % k, lambda: self.d[k])
        r = self.must_succeed("read", "d[%r]" % k, lambda: self.d[k])
        if r != self.m.pairs[i][1]:
            raise Violation("value-differs@read", "d[%r] = %r, model %r; %s" % (k, r, self.m.pairs[i][1], self.ctx()))

    def op_in(self, K):
        k = self.key(K)
        if k is None:
            return False
        i = self.touch(k)
        self.looked_up("in", k, i)
        if (k in self.d) != (i is not None):
            raise Violation("membership-differs@read", "(%r in d) = %r; %s" % (k, k in self.d, self.ctx()))

    def op_getd(self, K):
        k = self.key(K)
        if k is None:
            return False
        i = self.touch(k)
        self.looked_up("getd", k, i)
        r = self.d.get(k, "dflt")
        exp = "dflt" if i is None else self.m.pairs[i][1]
        if r != exp:
            raise Violation("value-differs@read", "d.get(%r, 'dflt') = %r, expected %r; %s" % (k, r, exp, self.ctx()))

    def op_obs(self):
        return None

    # re-ordering
    def reordered(self, name, k, i, target, before_keys):
        n = len(self.m)
        self.n_reorder += 1
        self.labels.add("move:%s>%s" % (posclass(i, n), target))
        if n == 1:
            self.labels.add("reorder:only-element")
        if self.m.keys() == before_keys:
            self.labels.add("reorder:order-unchanged")
        low = k.lower()
        if self.prev[0] == "del" and self.prev[1] in ("head", "tail") and not target.endswith("-mid"):
            self.labels.add("seq:del-%s>%s" % (self.prev[1], target))
        if self.prev[0] == "reorder":
            self.labels.add("seq:reorder>reorder-same-key" if self.prev[1] == low else "seq:reorder>reorder-other-key")
        self.prev = ("reorder", low)

    def op_first(self, K, last=False):
        k = self.key(K)
        if k is None:
            return False
        i = self.touch(k)
        name = "order_last" if last else "order_first"
        call = lambda: getattr(self.d, name)(k)   # noqa: E731
        if i is None:
            self.looked_up("order", k, i)
            return self.must_raise_keyerror("reorder", "%s(%r)" % (name, k), call)
        self.must_succeed("reorder", "%s(%r)" % (name, k), call)
        before = self.m.keys()
        if last:
            self.m.move_last(i)
        else:
            self.m.move_first(i)
        self.reordered(name, k, i, "last" if last else "first", before)

    def op_last(self, K):
        return self.op_first(K, last=True)

    def op_before(self, K, R, after=False):
        k, r = self.key(K), self.key(R)
        if k is None or r is None:
            return False
        i, j = self.touch(k), self.touch(r)
        name = "order_after" if after else "order_before"
        what = "%s(%r, %r)" % (name, k, r)
        call = lambda: getattr(self.d, name)(k, r)   # noqa: E731
        if k.lower() == r.lower():
            try:
                call()
            except ValueError:
                self.labels.add("err:ValueError")
            except KeyError as e:
                if i is not None:
                    raise Violation("keyerror-on-present-key@reorder", "%s raised KeyError(%s); %s" % (what, e, self.ctx()))
                self.labels.add("err:KeyError")
            else:
                raise Violation("self-relative-accepted@reorder", "%s did not raise; %s" % (what, self.ctx()))
            if i is None:
                self.labels.add("err:self-relative-absent")
            return None
        if i is None or j is None:
            try:
                call()
            except KeyError:
                self.labels.add("err:KeyError")
                self.labels.add("err:reorder-%s-absent" % ("both" if i is None and j is None else
                                                            "key" if i is None else "ref"))
                return None
            except ValueError as e:
                raise Violation("valueerror-unexpected@reorder", "%s raised ValueError(%s); %s" % (what, e, self.ctx()))
            raise Violation("missing-key-accepted@reorder", "%s did not raise KeyError; %s" % (what, self.ctx()))
        try:
            call()
        except KeyError as e:
            raise Violation("keyerror-on-present-key@reorder", "%s raised KeyError(%s); %s" % (what, e, self.ctx()))
        except ValueError as e:
            raise Violation("valueerror-unexpected@reorder", "%s raised ValueError(%s); %s" % (what, e, self.ctx()))
        before = self.m.keys()
        n = len(self.m)
        jj = j - 1 if j > i else j          # where the reference sits once the moved key is out
        self.m.move_rel(i, r, after)
        self.reordered(name, k, i, target_class(after, jj, n - 1), before)

    def op_after(self, K, R):
        return self.op_before(K, R, after=True)

    # sort / copy / dump-parse
    def op_sort(self, mode="default", ranks=None):
        if mode not in SORT_KEYS:
            return False
        if mode in RANKED_SORTS:
            if not (isinstance(ranks, list) and ranks and all(is_index(x) for x in ranks)):
                return False
        libkey, modelkey = SORT_KEYS[mode](ranks)
        if libkey is None:
            self.d.sort_fields()
        else:
            self.d.sort_fields(key=libkey)
        before = self.m.keys()
        ks = [modelkey(s) for s in before]
        self.m.sort(modelkey)
        self.labels.add("sort:" + mode)
        self.labels.add("sort:order-unchanged" if before == self.m.keys() else "sort:order-changed")
        if any(a == b for a, b in itertools.combinations(ks, 2)):
            self.labels.add("sort:ties")
        if mode in NAME_SORTS and before:
            # coverage only: would this key have given another order had the names been compared
            # without regard to case?  (only then does the history tell the two orders apart)
            folded = sorted(before, key=lambda s: modelkey(s.lower()))
            self.labels.add("sort:name-key/case-decides" if folded != self.m.keys() else "sort:name-key/case-irrelevant")
        if self.prev[0] == "del":
            self.labels.add("seq:del>sort")
        if self.prev[0] == "reorder":
            self.labels.add("seq:reorder>sort")
        self.prev = ("sort",)

    def op_copy(self, side="copy"):
        if side not in SIDES:
            return False
        new = self.d.copy()
        if type(new) is not type(self.d) or new is self.d:
            raise Violation("copy-type@copy", "copy() of %s gave %s" % (type(self.d).__name__, type(new).__name__))
        self.fork(new, "copy", side)

    def op_reparse(self, form=0, side="copy"):
        if not self.has_dump or not is_index(form) or side not in SIDES:
            return False
        text = self.d.dump()
        if text != expected_dump(self.m.pairs):
            raise Violation("dump-differs@reparse", "dump() = %s; %s" % (short(text), self.ctx()))
        form %= 5
        if form == 0:
            new = Deb822(text)
        elif form == 1:
            new = Deb822(text.splitlines())
        elif form == 2:
            new = Deb822(text.encode("utf-8"))
        elif form == 3:
            new = Deb822(io.StringIO(text))
        elif len(self.m):
            paras = list(Deb822.iter_paragraphs(text))
            if len(paras) != 1:
                raise Violation("paragraph-count@reparse", "%d paragraphs from %s" % (len(paras), short(text)))
            new = paras[0]
        else:
            new = Deb822(text)
        self.fork(new, "reparse", side)


# ------------------------------------------------------------------------------------------
# kind "oset": debian._util.OrderedSet


class OSetSession(object):
    def __init__(self, ci, init):
        self.ci = bool(ci)
        self.m = ListModel(ci=self.ci)
        self.labels = set(["ci" if self.ci else "plain"])
        self.n_remove = self.n_move = 0
        self.step_no = 0
        self.prev = ("init",)
        items = [x for x in (init or []) if valid_key(x)]
        for x in items:
            self.m.set(x, None)
        self.s = OrderedSet([self.wrap(x) for x in items])
        self.observe("init")

    def wrap(self, x):
        return _CaseInsensitiveString(x) if self.ci else x

    def item(self, x):
        n = len(self.m)
        if isinstance(x, str):
            return x if valid_key(x) else None
        if is_index(x):
            return self.m.pairs[x % n][0] if n else None
        if isinstance(x, list) and len(x) == 2 and is_index(x[0]) and isinstance(x[1], str):
            return variant(self.m.pairs[x[0] % n][0], x[1]) if n else None
        return None

    def ctx(self):
        return "step %d, model before %s" % (self.step_no, short(self.m.keys(), 200))

    def observe(self, fam):
        exp = self.m.keys()
        n = len(exp)
        got = [plain(x) for x in bounded(iter(self.s), n)]
        what = classify(got, exp, self.m.norm)
        if what:
            raise Violation("oset-%s@%s" % (what, fam), "list(s) = %s, model %s" % (short(got), short(exp)))
        rev = [plain(x) for x in bounded(reversed(self.s), n)]
        if rev != exp[::-1]:
            raise Violation("oset-reversed-differs@" + fam, "reversed(s) = %s, list(s) = %s" % (short(rev), short(got)))
        if len(self.s) != n:
            raise Violation("oset-len-differs@" + fam, "len(s) = %r, list(s) = %s" % (len(self.s), short(got)))
        for x in exp:
            for q in (x, x.swapcase()):
                if (self.wrap(q) in self.s) != (self.m.find(q) is not None):
                    raise Violation("oset-membership-differs@" + fam, "(%r in s) = %r; model %s" % (
                        q, self.wrap(q) in self.s, short(exp)))
        for name in NAMES:
            if self.m.find(name) is None and self.wrap(name) in self.s:
                raise Violation("oset-membership-differs@" + fam, "%r in s; model %s" % (name, short(exp)))

    def step(self, op):
        self.step_no += 1
        if not (isinstance(op, list) and op and op[0] in self.OPS and len(op) - 1 == self.OPS[op[0]][0]):
            self.labels.add("skipped:malformed-op")
            return
        fam = self.OPS[op[0]][1]
        if getattr(self, "op_" + op[0])(*op[1:]) is False:
            self.labels.add("skipped:inapplicable")
            return
        self.observe(fam)

    def finish(self):
        if len(self.m) >= 5:
            self.labels.add("len>=5")
        return (self.n_remove >= 1 and self.n_move >= 1, sorted("oset/" + l for l in self.labels))

    def op_add(self, X):
        x = self.item(X)
        if x is None:
            return False
        self.s.add(self.wrap(x))
        if self.m.find(x) is None:
            self.m.set(x, None)
            if self.prev[0] == "remove":
                self.labels.add("seq:remove-%s>append" % self.prev[1])
            self.prev = ("append",)
        else:
            self.labels.add("add:present")

    def op_extend(self, XS):
        if not isinstance(XS, list):
            return False
        xs = [x for x in (self.item(X) for X in XS) if x is not None]
        self.s.extend([self.wrap(x) for x in xs])
        for x in xs:
            if self.m.find(x) is None:
                self.m.set(x, None)
                self.prev = ("append",)

    def op_in(self, X):
        x = self.item(X)
        if x is None:
            return False
        if (self.wrap(x) in self.s) != (self.m.find(x) is not None):
            raise Violation("oset-membership-differs@read", "(%r in s) = %r; %s" % (x, self.wrap(x) in self.s, self.ctx()))

    def expect_keyerror(self, fam, what, fn):
        try:
            fn()
        except KeyError:
            self.labels.add("err:KeyError")
            return None
        raise Violation("oset-missing-item-accepted@" + fam, "%s did not raise KeyError; %s" % (what, self.ctx()))

    def succeed(self, fam, what, fn):
        try:
            fn()
        except KeyError as e:
            raise Violation("oset-keyerror-on-present-item@" + fam, "%s raised KeyError(%s); %s" % (what, e, self.ctx()))
        except ValueError as e:
            raise Violation("oset-valueerror-unexpected@" + fam, "%s raised ValueError(%s); %s" % (what, e, self.ctx()))

    def op_remove(self, X):
        x = self.item(X)
        if x is None:
            return False
        i = self.m.find(x)
        if i is None:
            return self.expect_keyerror("remove", "remove(%r)" % x, lambda: self.s.remove(self.wrap(x)))
        self.succeed("remove", "remove(%r)" % x, lambda: self.s.remove(self.wrap(x)))
        pos = posclass(i, len(self.m))
        self.m.delete(i)
        self.n_remove += 1
        self.labels.add("remove:" + pos)
        if self.prev[0] == "move" and self.prev[1] == self.m.norm(x):
            self.labels.add("seq:move>remove-same-item")
        self.prev = ("remove", pos)

    def moved(self, x, i, target, before):
        n = len(self.m)
        self.n_move += 1
        self.labels.add("move:%s>%s" % (posclass(i, n), target))
        if self.prev[0] == "remove" and self.prev[1] in ("head", "tail") and not target.endswith("-mid"):
            self.labels.add("seq:remove-%s>%s" % (self.prev[1], target))
        if self.prev[0] == "move":
            self.labels.add("seq:move>move")
        if before == self.m.keys():
            self.labels.add("move:order-unchanged")
        self.prev = ("move", self.m.norm(x))

    def op_first(self, X, last=False):
        x = self.item(X)
        if x is None:
            return False
        i = self.m.find(x)
        name = "order_last" if last else "order_first"
        call = lambda: getattr(self.s, name)(self.wrap(x))   # noqa: E731
        if i is None:
            return self.expect_keyerror("move", "%s(%r)" % (name, x), call)
        self.succeed("move", "%s(%r)" % (name, x), call)
        before = self.m.keys()
        if last:
            self.m.move_last(i)
        else:
            self.m.move_first(i)
        self.moved(x, i, "last" if last else "first", before)

    def op_last(self, X):
        return self.op_first(X, last=True)

    def op_before(self, X, R, after=False):
        x, r = self.item(X), self.item(R)
        if x is None or r is None:
            return False
        i, j = self.m.find(x), self.m.find(r)
        name = "order_after" if after else "order_before"
        what = "%s(%r, %r)" % (name, x, r)
        call = lambda: getattr(self.s, name)(self.wrap(x), self.wrap(r))   # noqa: E731
        if self.m.same(x, r):
            try:
                call()
            except ValueError:
                self.labels.add("err:ValueError")
            except KeyError as e:
                if i is not None:
                    raise Violation("oset-keyerror-on-present-item@move", "%s raised KeyError(%s); %s" % (what, e, self.ctx()))
                self.labels.add("err:KeyError")
            else:
                raise Violation("oset-self-relative-accepted@move", "%s did not raise; %s" % (what, self.ctx()))
            return None
        if i is None or j is None:
            try:
                call()
            except KeyError:
                self.labels.add("err:KeyError")
                return None
            except ValueError as e:
                raise Violation("oset-valueerror-unexpected@move", "%s raised ValueError(%s); %s" % (what, e, self.ctx()))
            raise Violation("oset-missing-item-accepted@move", "%s did not raise KeyError; %s" % (what, self.ctx()))
        self.succeed("move", what, call)
        before = self.m.keys()
        n = len(self.m)
        jj = j - 1 if j > i else j
        self.m.move_rel(i, r, after)
        self.moved(x, i, target_class(after, jj, n - 1), before)

    def op_after(self, X, R):
        return self.op_before(X, R, after=True)

    OPS = {"add": (1, "add"), "extend": (1, "add"), "in": (1, "read"), "remove": (1, "remove"),
           "first": (1, "move"), "last": (1, "move"), "before": (2, "move"), "after": (2, "move")}


# ------------------------------------------------------------------------------------------
# kind "llist": debian._util.LinkedList


def valid_llvalue(v):
    return isinstance(v, str) or is_index(v)


class LListSession(object):
    OPS = {"append": 1, "head": 1, "ibefore": 2, "iafter": 2, "remove": 1, "pop": 0, "extend": 1, "clear": 0}

    def __init__(self, init):
        self.labels = set(["histories"])
        self.step_no = 0
        self.n_remove = self.n_insert = 0
        self.prev = ("init",)
        vals = [v for v in (init or []) if valid_llvalue(v)]
        self.ll = LinkedList(vals)
        self.vals = list(vals)
        self.nodes = bounded(self.ll.iter_nodes(), len(vals))
        if len(self.nodes) != len(vals):
            raise Violation("llist-order-differs@init", "%d nodes for %s" % (len(self.nodes), short(vals)))
        self.observe("init")

    def ctx(self):
        return "step %d, model %s" % (self.step_no, short(self.vals, 200))

    def observe(self, fam):
        ll, vals, nodes = self.ll, self.vals, self.nodes
        n = len(vals)
        got = bounded(iter(ll), n)
        if got != vals:
            raise Violation("llist-order-differs@" + fam, "list(ll) = %s, model %s" % (short(got), short(vals)))
        rev = bounded(reversed(ll), n)
        if rev != vals[::-1]:
            raise Violation("llist-reversed-differs@" + fam, "reversed(ll) = %s, list(ll) = %s" % (short(rev), short(got)))
        if len(ll) != n or bool(ll) != bool(n):
            raise Violation("llist-len-differs@" + fam, "len(ll) = %r, bool %r, list(ll) = %s" % (len(ll), bool(ll), short(got)))
        if ll.tail != (vals[-1] if n else None):
            raise Violation("llist-ends-differ@" + fam, "tail = %r, list(ll) = %s" % (ll.tail, short(got)))
        if ll.head_node is not (nodes[0] if n else None) or ll.tail_node is not (nodes[-1] if n else None):
            raise Violation("llist-ends-differ@" + fam, "head_node/tail_node are not the first/last node of %s" % short(got))
        for i, node in enumerate(nodes):
            if node.value != vals[i] or node.next_node is not (nodes[i + 1] if i + 1 < n else None) \
                    or node.previous_node is not (nodes[i - 1] if i else None):
                raise Violation("llist-links-differ@" + fam, "node %d of %s has wrong value/neighbours" % (i, short(vals)))
        if n:
            k = n // 2
            fw = [x.value for x in bounded(nodes[k].iter_next(), n)]
            bw = [x.value for x in bounded(nodes[k].iter_previous(skip_current=True), n)]
            if fw != vals[k:] or bw != vals[:k][::-1]:
                raise Violation("llist-links-differ@" + fam, "iter_next/iter_previous from node %d: %s / %s of %s" % (
                    k, short(fw), short(bw), short(vals)))

    def step(self, op):
        self.step_no += 1
        if not (isinstance(op, list) and op and op[0] in self.OPS and len(op) - 1 == self.OPS[op[0]]):
            self.labels.add("skipped:malformed-op")
            return
        if getattr(self, "op_" + op[0])(*op[1:]) is False:
            self.labels.add("skipped:inapplicable")
            return
        self.observe(op[0] if op[0] in ("remove", "pop", "clear") else "insert")

    def finish(self):
        if len(self.vals) >= 5:
            self.labels.add("len>=5")
        return (self.n_remove >= 1 and self.n_insert >= 1, sorted("llist/" + l for l in self.labels))

    def inserted(self, at, v, node, target):
        if node.value != v:
            raise Violation("llist-links-differ@insert", "returned node holds %r, not %r" % (node.value, v))
        self.vals.insert(at, v)
        self.nodes.insert(at, node)
        if target != "append":
            self.n_insert += 1
        self.labels.add("insert:" + target)
        if self.prev[0] == "remove" and self.prev[1] in ("head", "tail") and not target.endswith("-mid"):
            self.labels.add("seq:remove-%s>%s" % (self.prev[1], target))
        self.prev = ("insert",)

    def op_append(self, v):
        if not valid_llvalue(v):
            return False
        self.inserted(len(self.vals), v, self.ll.append(v), "append")

    def op_head(self, v):
        if not valid_llvalue(v):
            return False
        self.inserted(0, v, self.ll.insert_at_head(v), "at-head" if self.vals else "at-head-of-empty")

    def op_ibefore(self, v, i, after=False):
        n = len(self.vals)
        if not valid_llvalue(v) or not is_index(i) or not n:
            return False
        i %= n
        if after:
            self.inserted(i + 1, v, self.ll.insert_after(v, self.nodes[i]), target_class(True, i, n))
        else:
            self.inserted(i, v, self.ll.insert_before(v, self.nodes[i]), target_class(False, i, n))

    def op_iafter(self, v, i):
        return self.op_ibefore(v, i, after=True)

    def op_remove(self, i):
        n = len(self.vals)
        if not is_index(i) or not n:
            return False
        i %= n
        self.ll.remove_node(self.nodes[i])
        pos = posclass(i, n)
        del self.vals[i], self.nodes[i]
        self.n_remove += 1
        self.labels.add("remove:" + pos)
        self.prev = ("remove", pos)

    def op_pop(self):
        if not self.vals:
            try:
                self.ll.pop()
            except IndexError:
                self.labels.add("err:IndexError")
                return None
            raise Violation("llist-pop-empty-accepted@pop", "pop() on an empty list did not raise IndexError")
        self.ll.pop()
        pos = posclass(len(self.vals) - 1, len(self.vals))
        del self.vals[-1], self.nodes[-1]
        self.n_remove += 1
        self.labels.add("pop:" + pos)
        self.prev = ("remove", pos)

    def op_extend(self, vs):
        if not isinstance(vs, list):
            return False
        vs = [v for v in vs if valid_llvalue(v)]
        self.ll.extend(vs)
        self.vals.extend(vs)
        self.nodes = bounded(self.ll.iter_nodes(), len(self.vals))
        self.labels.add("extend")
        self.prev = ("insert",)

    def op_clear(self):
        self.ll.clear()
        del self.vals[:], self.nodes[:]
        self.labels.add("clear")
        self.prev = ("clear",)


# ------------------------------------------------------------------------------------------
# THE oracle


def open_session(case):
    kind = case.get("kind") if isinstance(case, dict) else None
    if kind == "deb822":
        return Deb822Session(case.get("init"), case.get("watch"))
    if kind == "oset":
        return OSetSession(case.get("ci"), case.get("init"))
    if kind == "llist":
        return LListSession(case.get("init"))
    return None


def check(case):
    s = open_session(case)
    if s is None:
        return (False, ("invalid-case-skipped",))
    ops = case.get("ops")
    for op in ops if isinstance(ops, list) else []:
        s.step(op)
    return s.finish()


# ------------------------------------------------------------------------------------------
# enumerations (index operands only, so every sequence is executable)

ENUM_INIT = [["A", "1"], ["b", "2"], ["X-y", "3"]]


def _deb822_alphabet():
    ops = []
    for i in range(3):
        ops += [["del", i], ["first", [i, "s"]], ["last", i]]
    for i in range(3):
        for j in range(3):
            ops += [["before", i, [j, "u"]], ["after", [i, "l"], j]]
    ops += [["set", "zz", "9"], ["set", [0, "s"], "8"], ["set", "a", "7"], ["sort"], ["copy"], ["reparse", 0],
            ["copy", "orig"], ["reparse", 0, "orig"]]
    return ops


def _oset_alphabet():
    ops = []
    for i in range(3):
        ops += [["remove", i], ["first", i], ["last", i]]
    for i in range(3):
        for j in range(3):
            ops += [["before", i, j], ["after", i, j]]
    ops += [["add", "zz"], ["add", [0, "s"]]]
    return ops


def _llist_alphabet():
    ops = [["append", 7], ["head", 8], ["pop"], ["clear"]]
    for i in range(3):
        ops += [["ibefore", 9, i], ["iafter", 6, i], ["remove", i]]
    return ops


def enum_deb822(maxlen):
    def gen():
        alpha = _deb822_alphabet()
        for how in ("lines", "dict"):
            init = {"cls": "Deb822", "how": how, "items": ENUM_INIT}
            for n in range(1, maxlen + 1 if how == "lines" else maxlen):
                for seq in itertools.product(alpha, repeat=n):
                    yield {"kind": "deb822", "init": init, "ops": list(seq)}
    return gen


# Sparse observation.  What matters here is what has been *read* before a deletion and what is
# asked afterwards, so the alphabet is deletions, every kind of lookup of the name deleted last
# (re-cased), and the assignments / reads that change the "was it read since it was assigned" state.
SPARSE_STARTS_LONG = [("Deb822", "empty"), ("Deb822", "dict"), ("Deb822", "text"), ("Deb822", "iterpara"),
                      ("Deb822Dict", "pairs")]


def _sparse_alphabet():
    gone = ["x", 0, "s"]
    return [["del", 0], ["del", [1, "u"]], ["del", -1],
            ["get", gone], ["getd", ["x", 0, ""]], ["in", gone], ["setdefault", ["x", 0, "u"], "6"],
            ["popd", gone], ["pop", ["x", 0, "l"]], ["del", gone], ["first", gone],
            ["set", gone, "5"], ["set", [0, "s"], "8"], ["set", "zz", "9"], ["get", [0, "l"]],
            ["getd", -1], ["last", 0], ["copy"], ["sort"], ["copy", "orig"]]


def enum_sparse(maxlen):
    def gen():
        alpha = _sparse_alphabet()
        for cls, how in INIT_HOWS:
            init = {"cls": cls, "how": how, "items": ENUM_INIT}
            top = maxlen if (cls, how) in SPARSE_STARTS_LONG else maxlen - 1
            for watch in ("blind", "keys"):
                for n in range(1, top + 1):
                    for seq in itertools.product(alpha, repeat=n):
                        yield {"kind": "deb822", "init": init, "watch": watch, "ops": list(seq)}
    return gen


# Sorting with key functions.  What matters is which key function it is and how the live names
# compare with and without regard to case, so: every key function of SORT_KEYS on every order of
# four names out of pools that mix the cases (capitals sort before small letters in str order, so
# 'Xb' < 'ab' although 'ab' comes first once the case is folded), from every start state; two sorts
# in a row (the second has to be stable with respect to the first); and a sort between a structural
# operation before and one after it.
SORT_POOLS = [["b", "A", "X-y", "c"], ["zz", "Ab", "e1", "G-h"], ["Source", "binary", "Version", "architecture"],
              ["x-Y", "B", "dD", "Ff"]]
SORT_RANKS = [[2, 0, 1], [0, 0, 1, 0], [3]]
SORT_PRE = [["del", 0], ["del", -1], ["set", [1, "s"], "8"], ["set", "J2", "9"], ["first", -1], ["after", 0, [1, "u"]],
            ["copy"], ["copy", "orig"], ["reparse", 1], ["reparse", 4, "orig"]]
SORT_POST = [["set", "i", "7"], ["del", [0, "s"]], ["last", 0], ["before", -1, 0], ["sort"], ["copy"], ["pop", 1]]


def _sort_ops():
    ops = [["sort", m] for m in PLAIN_SORTS]
    ops += [["sort", m, r] for m in RANKED_SORTS for r in SORT_RANKS]
    return ops


def enum_sortkeys(full):
    def gen():
        sorts = _sort_ops()
        for pi, pool in enumerate(SORT_POOLS):
            perms = list(itertools.permutations(pool))
            for ni, names in enumerate(perms):
                items = [[k, str(i + 1)] for i, k in enumerate(names)]
                for hi, (cls, how) in enumerate(INIT_HOWS):
                    # quick: each order from 4 of the 14 start states in turn, thorough: from all
                    if not full and (hi + ni) % 4:
                        continue
                    init = {"cls": cls, "how": how, "items": items}
                    watch = ("all", "keys", "blind")[(hi + ni + pi) % 3]
                    for op in sorts:
                        yield {"kind": "deb822", "init": init, "watch": watch, "ops": [op]}
            # two sorts in a row; a sort between two other operations
            for ni, names in enumerate(perms):
                if not full and ni % 12 != pi + 1:
                    continue
                init = {"cls": "Deb822", "how": ("text", "dict", "iterpara", "mapping")[ni % 4],
                        "items": [[k, str(i + 1)] for i, k in enumerate(names)]}
                for a in sorts:
                    for b in sorts:
                        yield {"kind": "deb822", "init": init, "ops": [a, b]}
                    for pre in SORT_PRE:
                        for post in SORT_POST:
                            yield {"kind": "deb822", "init": init, "ops": [pre, a, post, ["sort", "ident"]]}
    return gen


def enum_oset(maxlen):
    def gen():
        alpha = _oset_alphabet()
        for ci in (True, False):
            for n in range(1, maxlen + 1):
                for seq in itertools.product(alpha, repeat=n):
                    yield {"kind": "oset", "ci": ci, "init": ["A", "b", "X-y"], "ops": list(seq)}
    return gen


def enum_llist(maxlen):
    def gen():
        alpha = _llist_alphabet()
        for n in range(1, maxlen + 1):
            for seq in itertools.product(alpha, repeat=n):
                yield {"kind": "llist", "init": [1, 2, 3], "ops": list(seq)}
    return gen


# ------------------------------------------------------------------------------------------
# Hypothesis generators

# Operands are drawn with a single sampled_from over precomputed tables (one Hypothesis choice per
# operand keeps generation and shrinking cheap); the simplest operand comes first.
_INDEXES = [0, -1, 1, -2, 2, 3, 4, 5, 6, 7]
_ENDS = [0, -1, 0, -1, 1, -2]
_LIVE = _INDEXES + _ENDS + [[i, mo] for i in _INDEXES + _ENDS[:4] for mo in "lus"]
VALUES = ["1", "2", "v w", "", "#y", ":x", "\u00e9 \u00df", "\u6f22\U0001d4b3", "a  b", "x:y", "-", "0"]
k_lit = st.sampled_from(KEYS)
k_live = st.sampled_from(_LIVE)
k_end = st.sampled_from([0, -1, 1, -2, [0, "u"], [-1, "l"]])
k_any = st.sampled_from(_LIVE + KEYS + KEYS[:10])
value = st.sampled_from(VALUES)
ranks = st.lists(st.integers(0, 4), min_size=1, max_size=7)
sort_op = st.one_of(
    st.just(("sort",)),
    st.tuples(st.just("sort"), st.sampled_from(["default", "revlower", "len", "str"])),
    st.tuples(st.just("sort"), st.just("ranks"), ranks),
    # key functions that return, embed or compare the object they are given
    st.tuples(st.just("sort"), st.sampled_from(["ident", "ident"] + [m for m in NAME_SORTS if m not in RANKED_SORTS])),
    st.tuples(st.just("sort"), st.just("rank-name"), ranks))

op_new = st.tuples(st.just("set"), k_lit, value)
op_assign = st.tuples(st.just("set"), k_any, value)
op_del = st.tuples(st.sampled_from(["del", "del", "pop", "popd"]), k_any)
op_move1 = st.tuples(st.sampled_from(["first", "last"]), k_any)
op_move2 = st.tuples(st.sampled_from(["before", "after"]), k_any, k_any)
op_move2_live = st.tuples(st.sampled_from(["before", "after"]), k_live, k_live)
op_move_self = st.builds(lambda name, k, flip: (name, k, k.swapcase() if flip else k),
                         st.sampled_from(["before", "after"]), k_lit, st.booleans())
op_read = st.tuples(st.sampled_from(["get", "in", "getd"]), k_any)
op_setdefault = st.tuples(st.just("setdefault"), k_any, value)
op_update = st.tuples(st.just("update"), st.sampled_from(["dict", "pairs", "kwargs", "mapping"]),
                      st.lists(st.tuples(k_any, value), max_size=3))
op_misc = st.one_of(op_setdefault, op_update, st.just(("popitem",)), st.just(("obs",)))
# a second mapping is made; the history goes on with the new object or ("orig") with the old one
op_copy = st.sampled_from([("copy",), ("copy", "orig")])
op_reparse = st.one_of(st.tuples(st.just("reparse"), st.integers(0, 4)),
                       st.tuples(st.just("reparse"), st.integers(0, 4), st.just("orig")))
op_fork = st.one_of(op_copy, op_copy, op_reparse)


def weighted(*pairs):
    """one_of with integer weights (one_of itself flattens nested alternatives to equal weights)."""
    table = [i for i, (w, _) in enumerate(pairs) for _ in range(w)]
    strats = [x for _, x in pairs]
    return st.sampled_from(table).flatmap(lambda i: strats[i])


deb822_op = weighted(
    (18, op_new), (6, op_assign), (11, op_del), (1, st.just(("popitem",))),
    (12, op_move1), (18, op_move2_live), (4, op_move2), (1, op_move_self), (5, op_read),
    (3, op_setdefault), (4, op_update), (5, sort_op), (3, op_copy), (3, op_reparse),
    (1, st.just(("obs",))), (1, st.one_of(st.just(("clear",)), st.just(("obs",)))))


def _swap_literal(k):
    return k.swapcase() if k.swapcase() != k else k.upper()


move_op = st.one_of(op_move1, op_move2_live, op_move2_live)
motif = st.one_of(
    # remove an element (often an end), then re-order or append right away
    st.tuples(st.tuples(st.sampled_from(["del", "pop"]), k_live), st.one_of(move_op, op_new)),
    # remove the head or the tail, then insert relative to the (new) head or tail
    st.tuples(st.tuples(st.just("del"), k_end), st.tuples(st.sampled_from(["before", "after"]), k_live, k_end)),
    st.tuples(st.tuples(st.just("del"), k_end), st.tuples(st.sampled_from(["before", "after"]), k_end, k_end)),
    # ... in particular: insert before the (new) tail / after the (new) head, which moves neither end
    st.tuples(st.tuples(st.just("del"), st.sampled_from([0, -1])),
              st.one_of(st.tuples(st.just("before"), k_live, st.sampled_from([-1, [-1, "s"]])),
                        st.tuples(st.just("after"), k_live, st.sampled_from([0, [0, "s"]])))),
    # re-order a key, then delete / re-order that same key (it now sits at the front / the back)
    st.tuples(st.tuples(st.just("first"), k_live), st.tuples(st.sampled_from(["del", "last", "pop"]), st.sampled_from([0, [0, "s"]]))),
    st.tuples(st.tuples(st.just("last"), k_live), st.tuples(st.sampled_from(["del", "first", "pop"]), st.sampled_from([-1, [-1, "u"]]))),
    st.tuples(st.tuples(st.sampled_from(["before", "after"]), k_live, k_live), move_op, st.tuples(st.just("del"), k_live)),
    # delete a key and bring it back under another spelling
    st.builds(lambda k, v, w: (("set", k, v), ("del", _swap_literal(k)), ("set", _swap_literal(k), w)), k_lit, value, value),
    # sort after a deletion
    st.tuples(st.tuples(st.just("del"), k_live), sort_op),
    # two mappings alive: fork, then change on the live side what both had at that moment
    st.tuples(op_fork, st.one_of(st.tuples(st.just("set"), k_live, value),
                                 st.tuples(st.sampled_from(["del", "pop"]), k_live), op_move1, sort_op)),
    # ... twice, so that bystanders of both kinds (the old and the new object) accumulate
    st.tuples(op_fork, st.tuples(st.just("set"), k_live, value), op_fork,
              st.tuples(st.sampled_from(["del", "pop"]), k_live), st.tuples(st.just("set"), k_live, value)),
)
deb822_chunk = weighted((6, deb822_op.map(lambda o: (o,))), (1, motif))


def _sized(elem, max_ops):
    """Short histories (they cover the start states) and long ones (the live set has to grow before
    the interesting interleavings exist).  Long ones are a concatenation of six lists rather than
    one list with a minimum size, so that every part can still shrink to nothing."""
    part = st.lists(elem, max_size=max_ops // 3 + 1)
    return st.one_of(st.lists(elem, min_size=1, max_size=8),
                     st.builds(lambda *parts: sum(parts, [])[:max_ops],
                               st.lists(elem, min_size=1, max_size=max_ops // 3 + 1),
                               part, part, part, part, part))


def _flatten(chunks, limit):
    return [op for ch in chunks for op in ch][:limit]


INIT_HOWS = [("Deb822", "empty"), ("Deb822", "dict"), ("Deb822", "mapping"), ("Deb822", "text"),
             ("Deb822", "lines"), ("Deb822", "bytes"), ("Deb822", "file"), ("Deb822", "iterpara"),
             ("Deb822", "backed"), ("Deb822Dict", "empty"), ("Deb822Dict", "dict"),
             ("Deb822Dict", "pairs"), ("Deb822Dict", "mapping"), ("Deb822Dict", "backed")]
init_st = st.builds(lambda ch, items: {"cls": ch[0], "how": ch[1], "items": items},
                    st.sampled_from(INIT_HOWS),
                    st.one_of(st.lists(st.tuples(k_lit, value), max_size=2),
                              st.lists(st.tuples(k_lit, value), min_size=4, max_size=9),
                              st.lists(st.tuples(k_lit, value), min_size=3, max_size=6,
                                       unique_by=lambda kv: kv[0].lower()),
                              st.lists(st.tuples(k_lit, value), min_size=5, max_size=10,
                                       unique_by=lambda kv: kv[0].lower())))


def gen_deb822(max_ops):
    return st.builds(lambda init, chunks: {"kind": "deb822", "init": init, "ops": _flatten(chunks, max_ops)},
                     init_st, _sized(deb822_chunk, max_ops))


# Histories for the sparse observation policies: the ordinary mix, plus operations on names that
# were deleted before (operand ["x", i, case]) and motifs "assign or not, read or not, delete,
# look up again" - the lookups are the only observations a blind history makes before its end.
k_gone = st.sampled_from([["x", 0, ""], ["x", 0, "s"], ["x", 0, "u"], ["x", 0, "l"],
                          ["x", 1, ""], ["x", 1, "s"], ["x", 2, "u"], ["x", 3, "l"]])
k_gone0 = st.sampled_from([["x", 0, ""], ["x", 0, "s"], ["x", 0, "u"], ["x", 0, "l"]])


def _lookup(k):
    return st.one_of(st.tuples(st.sampled_from(["get", "getd", "in", "popd", "get", "getd", "popd", "pop", "del",
                                                "first", "last"]), k),
                     st.tuples(st.just("setdefault"), k, value))


op_del_unread = st.tuples(st.sampled_from(["del", "del", "del", "pop", "popd"]), k_live)
sparse_op = weighted(
    (10, op_new), (5, op_assign), (12, op_del_unread), (14, _lookup(k_gone)), (3, _lookup(k_any)),
    (2, st.tuples(st.just("set"), k_gone, value)), (3, st.tuples(st.sampled_from(["get", "getd", "in"]), k_live)),
    (2, op_update), (3, op_move1), (4, op_move2_live), (2, sort_op), (2, op_copy), (1, op_reparse),
    (1, st.just(("popitem",))), (1, st.one_of(st.just(("clear",)), st.just(("obs",)))))
sparse_motif = st.one_of(
    # delete a key as it stands (parsed / initialised / assigned, read or not), look it up again
    st.tuples(st.tuples(st.just("del"), k_live), _lookup(k_gone0)),
    st.tuples(st.tuples(st.just("del"), k_live), _lookup(k_gone0), _lookup(k_gone0)),
    # assign (new or existing key: index operands keep pointing at it), delete it, look it up
    st.builds(lambda k, v, look: (("set", k, v), ("del", _swap_literal(k)), look), k_lit, value, _lookup(k_gone0)),
    st.builds(lambda i, v, look: (("set", i, v), ("del", i), look), st.sampled_from(_INDEXES), value, _lookup(k_gone0)),
    # read it, re-assign it, delete it, look it up
    st.builds(lambda i, rd, v, look: ((rd, i), ("set", i, v), ("del", i), look),
              st.sampled_from(_INDEXES), st.sampled_from(["get", "getd"]), value, _lookup(k_gone0)),
    # read it, delete it, look it up (the contrast)
    st.builds(lambda i, rd, look: ((rd, i), ("del", i), look),
              st.sampled_from(_INDEXES), st.sampled_from(["get", "getd"]), _lookup(k_gone0)),
    # delete, look up, bring it back, delete again, look up
    st.builds(lambda k, l1, v, l2: (("del", k), l1, ("set", ["x", 0, "s"], v), ("del", -1), l2),
              k_live, _lookup(k_gone0), value, _lookup(k_gone0)),
)
sparse_chunk = weighted((6, sparse_op.map(lambda o: (o,))), (3, deb822_op.map(lambda o: (o,))),
                        (3, sparse_motif), (1, motif))
watch_sparse = st.sampled_from(["blind", "keys", "blind"])


def gen_sparse(max_ops):
    return st.builds(lambda init, watch, chunks: {"kind": "deb822", "init": init, "watch": watch,
                                                  "ops": _flatten(chunks, max_ops)},
                     init_st, watch_sparse, _sized(sparse_chunk, max_ops))


oset_op = st.one_of(
    st.tuples(st.just("add"), k_lit), st.tuples(st.just("add"), k_lit), st.tuples(st.just("add"), k_any),
    st.tuples(st.just("remove"), k_any), st.tuples(st.just("remove"), k_live),
    st.tuples(st.sampled_from(["first", "last"]), k_any), st.tuples(st.sampled_from(["first", "last"]), k_live),
    st.tuples(st.sampled_from(["before", "after"]), k_any, k_any),
    st.tuples(st.sampled_from(["before", "after"]), k_live, k_live),
    st.tuples(st.sampled_from(["before", "after"]), k_live, k_live),
    st.tuples(st.just("in"), k_any),
    st.tuples(st.just("extend"), st.lists(k_any, max_size=3)))


oset_motif = st.one_of(
    st.tuples(st.tuples(st.just("remove"), k_end), st.tuples(st.sampled_from(["before", "after"]), k_live, k_end)),
    st.tuples(st.tuples(st.just("remove"), k_end), st.tuples(st.sampled_from(["before", "after"]), k_end, k_end)),
    st.tuples(st.tuples(st.just("remove"), k_end), st.tuples(st.sampled_from(["first", "last"]), k_live),
              st.tuples(st.just("add"), k_lit)),
    st.tuples(st.tuples(st.just("remove"), st.sampled_from([0, -1])),
              st.one_of(st.tuples(st.just("before"), k_live, st.sampled_from([-1, [-1, "s"]])),
                        st.tuples(st.just("after"), k_live, st.sampled_from([0, [0, "s"]])))),
    st.tuples(st.tuples(st.just("first"), k_live), st.tuples(st.just("remove"), st.sampled_from([0, [0, "s"]]))),
    st.tuples(st.tuples(st.just("last"), k_live), st.tuples(st.just("remove"), st.sampled_from([-1, [-1, "s"]]))),
)
oset_chunk = weighted((6, oset_op.map(lambda o: (o,))), (1, oset_motif))


def gen_oset(max_ops):
    return st.builds(lambda ci, init, chunks: {"kind": "oset", "ci": ci, "init": init,
                                               "ops": _flatten(chunks, max_ops)},
                     st.booleans(),
                     st.one_of(st.lists(k_lit, max_size=4), st.lists(k_lit, min_size=4, max_size=12)),
                     _sized(oset_chunk, max_ops))


ll_value = st.sampled_from([0, 1, 2, 3, 4, 5, "x", "y"])
idx = st.sampled_from(_INDEXES + _ENDS)
llist_op = st.one_of(
    st.tuples(st.just("append"), ll_value), st.tuples(st.just("head"), ll_value),
    st.tuples(st.sampled_from(["ibefore", "iafter"]), ll_value, idx),
    st.tuples(st.sampled_from(["ibefore", "iafter"]), ll_value, idx),
    st.tuples(st.just("remove"), idx), st.tuples(st.just("remove"), idx), st.just(("pop",)),
    st.one_of(st.tuples(st.just("extend"), st.lists(ll_value, max_size=3)),
              st.tuples(st.just("extend"), st.lists(ll_value, max_size=3)), st.just(("clear",))))


def gen_llist(max_ops):
    return st.builds(lambda init, ops: {"kind": "llist", "init": init, "ops": ops},
                     st.lists(ll_value, max_size=6), _sized(llist_op, max_ops))


# ------------------------------------------------------------------------------------------
# thorough: RuleBasedStateMachine driving the same interpreter


def make_machine(rec, excluded, last_failure):
    from hypothesis.stateful import RuleBasedStateMachine, rule, initialize, precondition, invariant

    class Deb822Machine(RuleBasedStateMachine):
        def __init__(self):
            RuleBasedStateMachine.__init__(self)
            self.session = None
            self.case = None
            self.dead = False

        def run(self, op):
            """One step through the shared interpreter; the step is appended to the trace first so
            that a failing trace ends with the failing step."""
            if self.dead or self.session is None:
                return
            self.case["ops"].append(op)
            try:
                self.session.step(op)
            except Violation as v:
                self.failed(v)
            except Exception as e:    # pylint: disable=broad-except
                self.failed(_classify_exception(e))

        def failed(self, v):
            self.dead = True
            if v.sig in excluded:
                rec.excluded_hits += 1
                return
            last_failure["v"], last_failure["case"] = v, _jsonable(self.case)
            raise v

        @initialize(init=init_st, watch=st.sampled_from(["all", "all", "blind", "keys"]))
        def start(self, init, watch):
            self.case = {"kind": "deb822", "init": _jsonable(init), "watch": watch, "ops": []}
            if rec.budget_exhausted or rec.expired():
                self.dead = True
                return
            try:
                self.session = Deb822Session(self.case["init"], watch)
            except Violation as v:
                self.failed(v)
            except Exception as e:    # pylint: disable=broad-except
                self.failed(_classify_exception(e))

        def live(self):
            return 0 if self.session is None or self.dead else len(self.session.m)

        # Hypothesis picks uniformly among the enabled rules, so the mix of operations is set by
        # how the rules are cut: writes twice, re-orderings three times, everything rare in one rule.
        @rule(k=k_lit, v=value)
        def assign_literal(self, k, v):
            self.run(["set", k, v])

        @rule(op=weighted((3, op_new), (3, op_assign), (2, op_setdefault), (2, op_update)))
        def write(self, op):
            self.run(_jsonable(op))

        @precondition(lambda self: self.live() >= 1)
        @rule(op=weighted((8, st.tuples(st.sampled_from(["del", "del", "pop", "popd"]), k_live)),
                          (1, st.just(("popitem",)))))
        def delete_live(self, op):
            self.run(_jsonable(op))

        @rule(name=st.sampled_from(["del", "pop", "popd", "get", "in", "getd", "first", "last"]), k=k_lit)
        def literal_key_op(self, name, k):
            self.run([name, k])

        @precondition(lambda self: self.session is not None and not self.dead and self.session.gone)
        @rule(op=_lookup(k_gone))
        def lookup_deleted(self, op):
            self.run(_jsonable(op))

        @precondition(lambda self: self.live() >= 1)
        @rule(name=st.sampled_from(["first", "last"]), k=k_live)
        def move_to_end(self, name, k):
            self.run([name, _jsonable(k)])

        @precondition(lambda self: self.live() >= 2)
        @rule(name=st.sampled_from(["before", "after"]), k=k_live, r=k_live)
        def move_relative(self, name, k, r):
            self.run([name, _jsonable(k), _jsonable(r)])

        @precondition(lambda self: self.live() >= 2)
        @rule(name=st.sampled_from(["before", "after"]), k=k_end, r=k_end)
        def move_relative_ends(self, name, k, r):
            self.run([name, _jsonable(k), _jsonable(r)])

        @rule(op=weighted((3, op_move2), (3, op_read), (1, op_move1), (1, op_move_self)))
        def any_key_op(self, op):
            self.run(_jsonable(op))

        @rule(op=weighted((5, sort_op), (3, op_copy), (3, op_reparse), (1, st.just(("obs",))),
                          (1, st.just(("clear",)))))
        def whole(self, op):
            self.run(_jsonable(op))

        @invariant()
        def agrees_with_model(self):
            # model agreement as a Hypothesis invariant: runs after @initialize and after every
            # rule (the interpreter itself has already compared once inside the step), within what
            # the observation policy of the run allows; the full observation at the end of a
            # sparse run is made by the replay in teardown
            if self.session is not None and not self.dead:
                try:
                    self.session.observe("invariant")
                except Violation as v:
                    self.failed(v)

        def teardown(self):
            if self.case is not None and not self.dead and self.case["ops"]:
                # replay the trace through check(): the evidence counts what the oracle decided on
                # the op-list, and a divergence between live run and replay would show up here
                rec.case(_jsonable(self.case))
                rec.note("machine-runs")
                rec.note("machine-steps", len(self.case["ops"]))

    return Deb822Machine


def _jsonable(x):
    from ..core import jsonable
    return jsonable(x)


def _classify_exception(e):
    """Same classification the engine applies to exceptions escaping check()."""
    from .. import engine
    fr = engine.lib_frame(e.__traceback__)
    if fr is None:
        raise e
    return Violation("EXC:%s@%s" % (type(e).__name__, fr), "%s: %s" % (type(e).__name__, short(str(e), 200)))


def machine_phase(runs, steps):
    def fn(shard, nshards, seed, deadline, rec):
        import hypothesis
        from hypothesis import settings, HealthCheck, Phase, Verbosity
        from hypothesis.stateful import run_state_machine_as_test
        import os
        phases = [Phase.generate] if os.environ.get("VERIF_NO_SHRINK") else [Phase.generate, Phase.shrink]
        cfg = settings(max_examples=runs, stateful_step_count=steps, database=None, deadline=None,
                       derandomize=False, report_multiple_bugs=False, phases=phases, print_blob=False,
                       verbosity=Verbosity.quiet,
                       suppress_health_check=[HealthCheck.too_slow, HealthCheck.data_too_large,
                                              HealthCheck.large_base_example, HealthCheck.filter_too_much])
        excluded = set()
        for _ in range(4):
            last = {}
            machine = make_machine(rec, excluded, last)
            try:
                run_state_machine_as_test(hypothesis.seed(seed)(machine), settings=cfg)
            except Violation:
                v, case = last["v"], last["case"]
                # the minimal trace, in op-list format, goes through check() like any other case
                if rec.case(case):
                    rec.note("machine-failure-not-reproduced-by-replay")
                    rec.fail(case, v)
                excluded.add(v.sig)
                continue
            break
    return fn


def sources(tier):
    if tier == "quick":
        return [Enum("deb822-histories<=3", enum_deb822(3), "deb822 op alphabet, 1..3 steps"),
                Enum("oset-histories<=3", enum_oset(3), "OrderedSet op alphabet, 1..3 steps, ci and plain"),
                Enum("llist-histories<=4", enum_llist(4), "LinkedList op alphabet, 1..4 steps"),
                Enum("deb822-sparse-histories<=3", enum_sparse(3),
                     "delete/lookup op alphabet under the observation policies keys and blind, 14 start states"),
                Enum("deb822-sort-keys", enum_sortkeys(False), "every sort key function x orders of 4 mixed-case names"),
                Hyp("deb822-histories", gen_deb822(30), 700, shards=8),
                Hyp("deb822-sparse-histories", gen_sparse(30), 700, shards=3),
                Hyp("oset-histories", gen_oset(30), 700, shards=3),
                Hyp("llist-histories", gen_llist(30), 700, shards=3)]
    return [Enum("deb822-histories<=4", enum_deb822(4), "deb822 op alphabet, 1..4 steps"),
            Enum("oset-histories<=4", enum_oset(4), "OrderedSet op alphabet, 1..4 steps, ci and plain"),
            Enum("llist-histories<=5", enum_llist(5), "LinkedList op alphabet, 1..5 steps"),
            Enum("deb822-sparse-histories<=4", enum_sparse(4),
                 "delete/lookup op alphabet under the observation policies keys and blind, 14 start states"),
            Enum("deb822-sort-keys", enum_sortkeys(True), "every sort key function x orders of 4 mixed-case names"),
            Hyp("deb822-histories", gen_deb822(40), 10000, shards=16),
            Hyp("deb822-sparse-histories", gen_sparse(40), 10000, shards=6),
            Hyp("oset-histories", gen_oset(40), 6000, shards=4),
            Hyp("llist-histories", gen_llist(40), 6000, shards=4),
            Custom("deb822-machine", machine_phase(250, 50), shards=8)]
