"""C16 - copyright: a file resolves to the last Files paragraph whose glob matches it.

Three kinds of case (plain JSON):

  {"kind": "globs", "patterns": [glob, ...], "names": [file name, ...]}

      the list is handed to globs_to_re() directly (the translation every paragraph uses) and the
      returned expression is asked with fullmatch(), as FilesParagraph.matches does.  Here - and
      only here - a pattern may contain newlines, blanks or any other character (a Files field
      cannot carry them: it is split at white space)

  any kind: "before": [[glob, ...], ...]   lists converted with globs_to_re() (and asked about
      every name) in the same process before the case proper: what a list matches must not depend
      on which lists were converted earlier.  The generators take them from ``siblings()``: the
      list under test joined/split at newlines (and at blank, tab, '|', ',', nothing), with two
      neighbours merged, permuted, shortened at either end, one pattern repeated

  {"kind": "para", "via": "create" | "assign" | "parse",
   "patterns": [glob, ...],            the Files list under test (1..n non-empty, blank-free strings)
   "prev":     [glob, ...],            via=assign only: the list the paragraph holds first
   "seps":     [lead, sep, sep, ...],  via=parse only: text after "Files:" and between patterns
   "names":    [file name, ...]}

      create  FilesParagraph.create(patterns, ...)
      assign  create(prev); match; .files = patterns; match; .files = prev; match; .files = patterns;
              match   (the compiled pattern is cached per paragraph, keyed by the Files text)
              "handle": "own" (default) | "deb822" | "twin" - through which handle the Files value
              is changed: the paragraph's own ``files`` property; the Deb822 object the paragraph
              was built over with the public constructor FilesParagraph(data) (the Files text,
              spelt with ``seps``, is stored into it); a second FilesParagraph wrapping the same
              Deb822.  Whatever the route, ``p.files`` must show the new list and ``p.matches``
              must follow it (the twin is asked as well).
      create / assign with "patterns" in which some pattern holds white space (at an end, at both
              ends, inside, or nothing else) - a list the blank-separated field cannot carry: it
              is handed to create() / the files setter (own or twin) as it is.  EITHER it is
              refused with ValueError (MachineReadableFormatError is one) and the paragraph goes
              on showing and matching the list it held, OR it is accepted and matches() /
              find_files_paragraph answer for the patterns exactly as they were GIVEN (what
              .files reads back is then not compared).  Refusal is not demanded.  via=assign then
              assigns the list split at its white space, the given list again, and the old list
      parse   a two-paragraph document whose Files field is spelt with ``seps`` (blanks, tabs,
              continuation lines), read with Copyright(...) in the form given by "input"/"enc"
              (see below); "omit": ["Copyright" | "License", ...] leaves these fields out of the
              paragraph

  "strict": true | false - handed to Copyright(..., strict=...), the documented parameter ("raise
           if format errors are detected"); absent = the default.  A document with a paragraph
           that lacks Copyright/License (or that has neither Files nor License) may be refused
           with the format error unless strict is false; whenever it is accepted, every paragraph
           with a Files field is a Files paragraph of the document and takes part in the lookup

  "fieldcase": [style, ...] - how the harness spells the field names it writes (Format, Files,
           Copyright, License, Comment; also the keys of a Deb822 it builds a paragraph over):
           occurrence k in style[k % len] of "asis" | "lower" | "upper" | "swap".  deb822 field
           names are case-insensitive, so nothing else about the case changes: `files:` makes a
           Files paragraph, `copyright:` / `license:` are the fields strict asks for

  "input": "text-file" (default; io.StringIO) | "text-lines" (list of str) |
           "bytes-file" (io.BytesIO) | "byte-lines" (list of bytes)
  "enc":   with a bytes input, the codec the document is encoded in; it is handed to
           Copyright(..., encoding=enc), the documented parameter for raw byte input (one of
           CODECS; anything else, or a document the codec cannot spell, means utf-8)

  {"kind": "doc", "via": "dump" | "text",
   "paras": [["F", [glob, ...], [seps]] | ["F", [glob, ...], [seps], [omitted field, ...]] |
             ["L", synopsis] | ["X", comment], ...],
   "names": [file name, ...]}

      F = Files paragraph (optionally without its Copyright and/or License field: in a document
      written out by the harness, or - "wrap": true - built with FilesParagraph(Deb822,
      strict=False)); L = stand-alone License paragraph; X = a paragraph with neither Files nor
      License (only a Comment; text documents only)

      dump    Copyright(); add_files_paragraph / add_license_paragraph in the given order; checked,
              then dumped, re-read (in the "input"/"enc" form) and checked again.  "wrap": true
              builds every Files paragraph as FilesParagraph(Deb822) over a Deb822 the harness
              keeps, so that edits can go through another handle
      text    the document is written out by the harness (paragraph order as given, License
              paragraphs between Files paragraphs) and read with Copyright(...) in the
              "input"/"enc" form
      "edits": [["files", i, [glob, ...]] | ["files", i, [glob, ...], handle] | ["add", [glob, ...]]]
              applied one by one to the live document, every name asked again after each
              (handle as above; "deb822"/"twin" fall back to "own" where the harness holds no
              Deb822, i.e. in parsed documents)
      a list holding white space may stand in an F entry of a via=dump document (create(); a
              refused paragraph is left out of the document) and in an edit (the paragraph's own
              setter / create(); a refused edit changes nothing).  A document holding an accepted
              one is looked up against the patterns as given and is not dumped and re-read

Oracle: vcheck.model.c16_glob (no ``re``).  ``p.matches(name)`` must equal "some pattern matches the
whole name" when every pattern of the list is legal and must raise MachineReadableFormatError when
one is not; ``find_files_paragraph(name)`` must return (the very object of) the last Files
paragraph the reference says matches, or None.
"""
import io
import itertools
import logging
import posixpath
import unicodedata

from hypothesis import strategies as st

from ..core import Violation, Enum, Hyp, short
from ..model import c16_glob as G

from debian import copyright as C
from debian import deb822 as D

ID = "C16"
LEVEL = "exploration"
RULE = ("cases are (Files pattern list, way the list reaches the paragraph, file names) and small "
        "documents of Files/License paragraphs x file names; enumerated: every list of one pattern "
        "(<=3 tokens) and of two patterns (<=2 tokens; thorough also <=3 tokens without the "
        "escaped backslash, and three patterns of <=2 tokens over 4) from the token alphabet {a / * ? \\* \\\\} plus 8 (two patterns: 3) illegal "
        "patterns x every name of <=3 (thorough, one pattern: <=4) characters over {a / * \\ newline}; every document of 1..3 "
        "one-pattern Files paragraphs over 6 patterns x 15 names (two-paragraph documents also "
        "edited through the paragraph, the Deb822 under it or a second wrapper); one paragraph "
        "whose list is replaced through each of the three handles; 1..2 Files paragraphs over 9 "
        "lists x 6 matching names in 15 spellings (./n /n n/ x/../n ././n n//n n/. other case, "
        "blanks, NFD, backslashes, ../n, n+newline); documents with non-ASCII letters in their "
        "patterns as text file / text lines / bytes file / byte lines in 7 codecs (utf-8 koi8-r "
        "cp1251 iso8859-2 iso8859-7 latin-1 shift_jis) with encoding=codec for the byte forms; "
        "lists handed to globs_to_re() directly (the only place where a pattern can hold white "
        "space): each of 135 characters (all ASCII incl. newline/blank/tab/controls, 7 others) as "
        "a literal and behind a backslash in 12 lists x 11 names; every list of one pattern <=4 "
        "(thorough 5) and two patterns <=2 (thorough 3) characters over {a * newline} converted "
        "after all its sibling lists (joined / split at newline blank tab | , or nothing, two "
        "neighbours merged, split and merged elsewhere, reversed, rotated, shortened at either "
        "end, one pattern repeated) in the same process, and 20 two-pattern lists met by a "
        "paragraph or document after their siblings were converted; documents of 1..2 Files "
        "paragraphs over 3 lists lacking Copyright and/or License (with License and field-less "
        "bystander paragraphs) read with strict=False / strict=True / the default, as text and "
        "built over Deb822 objects with FilesParagraph(data, strict=False); "
        "parsed documents of 2..3 Files paragraphs whose field names are spelt in other letter "
        "case (each occurrence of Format / Files / Copyright / License lower, upper, swapped; all "
        "255 assignments of the 4 styles to the 4 names) x strict False/True/default x 4 input "
        "forms, single paragraphs in 256 spellings, Deb822-backed paragraphs keyed in 64 "
        "spellings; lists the Files field cannot carry - 13 white-space strings (blank, tab, "
        "newline, CR, VT, FF, FS, NEL, NBSP, LS, ideographic space, blank+newline, CRLF) in front "
        "of, behind, around and inside 5 patterns or alone, in 3 list shapes - handed to create(), "
        "the files setter (own / twin), paragraphs and edits of built documents and edits of "
        "parsed ones (refused, or matched exactly as given); "
        "generated: 1..4 patterns of 1..6 "
        "tokens over a 25-token alphabet (regex meta characters, escapes, rare illegal escapes) "
        "reaching the paragraph by create / re-assignment (own files property, the wrapped Deb822, "
        "a twin wrapper) / parsing (the four input forms, letters renamed into the codec's), with "
        "names derived from the "
        "patterns (an instance of a pattern, then one character added, removed or replaced, two "
        "instances concatenated, or the instance in another spelling) and documents of 1..4 Files "
        "paragraphs, half of the built ones over caller-owned Deb822 objects; one parsed case in "
        "four gives the strict parameter (3:1 False) and leaves Copyright/License out of Files "
        "paragraphs, one case in five converts up to 3 sibling lists first; one parsed / Deb822-backed "
        "case in four spells its field names in 1..8 drawn styles; one create/assign case and one "
        "document in eight puts white space into a pattern given to create() or the setter; direct globs_to_re "
        "lists of 1..4 patterns of 1..6 tokens incl. newline, blank, tab, CR, LS as literals and "
        "(one list in eight) behind a backslash, 6 in 10 after sibling lists. Non-trivial = a legal "
        "list of >=2 patterns and a name of which some pattern matches a proper prefix or proper "
        "suffix; for documents >=2 Files paragraphs and a name matched by two of them or matched by "
        "one and nearly by another; distinct = distinct canonical JSON of the case")
ASSUMPTIONS = [
    "reference glob matcher vcheck/model/c16_glob.py (position-set simulation, cross-checked on "
    "every evaluation against a memoised-recursion formulation; neither uses re)",
    "patterns a paragraph holds contain no whitespace and are non-empty (the Files field is "
    "whitespace separated), so there 'newlines' of the quantifier occur in "
    "names and as pattern separators of parsed documents; patterns holding newlines or blanks are "
    "handed to globs_to_re() directly and the expression it returns is asked with fullmatch(), "
    "exactly as FilesParagraph.matches does (non-empty patterns only)",
    "a list in which a pattern holds white space, handed to FilesParagraph.create() or the files "
    "setter: refusing it with ValueError is allowed (the unchanged library always does, so the "
    "accepted branch is exercised only by a changed library) and then the paragraph must still "
    "show and match the list it held; if it is accepted, matches() and find_files_paragraph must "
    "answer for the patterns as they were given - storing a stripped or split list and matching "
    "that is a violation (signature accepted-list-matched-as-a-different-list); .files is not "
    "compared in that branch",
    "field names of the documents the harness writes (and keys of the Deb822 objects it builds) "
    "may be spelt in any letter case: deb822 field names are case-insensitive, so a paragraph "
    "with a `files:` field is a Files paragraph and `copyright:` / `license:` satisfy strict",
    "what a list matches is a function of the list: worker processes evaluate many cases one after "
    "the other and the 'before' lists of a case are converted in the same process, so a "
    "violation caused by state the library keeps between calls may need the earlier "
    "conversions (the 'before' key carries them) to replay",
    "strict: a document with a Files paragraph lacking Copyright/License, or with a paragraph "
    "that has neither Files nor License, may be refused with MachineReadableFormatError unless "
    "strict=False is given; whenever Copyright(...) accepts it, every paragraph with a Files "
    "field counts as a Files paragraph (all_files_paragraphs, find_files_paragraph) and a "
    "field-less paragraph as none; the library's log output for tolerated errors is discarded",
    "a document holding an illegal pattern: find_files_paragraph may raise the format error or "
    "answer as if that paragraph matched nothing",
    "a FilesParagraph built with the public constructor FilesParagraph(Deb822) shares that "
    "Deb822 with its builder (it is not copied): after the Files value is changed through the "
    "Deb822 or through a second wrapper, .files of the first wrapper must read back the new list "
    "(checked) and matches() must follow what .files shows",
    "bytes input: the document is encoded by Python's codec and Copyright(..., encoding=codec) "
    "must read back exactly the patterns written; only ASCII-compatible codecs and letters the "
    "codec round-trips; text input is never combined with a non-default encoding argument "
    "(deb822 re-decodes str lines with it - outside what the parameter is documented for)",
    "Hypothesis 6.168 generators; sha1 for distinctness",
]
EXHAUSTIVE = {
    "quick": "all lists of one pattern of <=3 tokens and of two patterns of <=2 tokens x names of "
             "<=3 chars (tokens a / * ? \\* \\\\ + 8 resp. 3 illegal patterns; name chars "
             "a / * \\ newline); all documents of 1..3 one-pattern Files paragraphs over 6 "
             "patterns x 15 names; all (old, new) pairs of 7 one-pattern lists x 3 handles x 15 "
             "names; all documents of 1..2 paragraphs over 9 lists x 6 names x 15 spellings; "
             "7 codecs x 4 input forms x all documents of 1..2 paragraphs over 5 lists; "
             "globs_to_re: 135 characters x 12 lists x 11 names; all lists of one pattern <=4 and "
             "two patterns <=2 characters over {a * newline} after all their siblings; all "
             "documents of 1..2 paragraphs over 3 lists x every choice of omitted "
             "Copyright/License x strict False/True/default; 3 documents x (every field-name "
             "occurrence x 3 styles + all 255 style assignments to Format/Files/Copyright/License) "
             "x strict False/True/default; 13 white-space strings x 5 patterns x 6 places x 3 list "
             "shapes x (create, setter, built-document paragraph/edit, parsed-document edit)",
    "thorough": "quick, plus one pattern x names of 4 chars, all lists of two patterns of <=3 tokens "
                "over {a / * ? \\*} and of three patterns of <=2 tokens over {a / * ?} x names <=3 chars",
}
BUDGET = {"quick": 200, "thorough": 1500}

# strict=False reports what it tolerates through logging; keep the workers' stderr quiet
_log = logging.getLogger(C.__name__)
_log.addHandler(logging.NullHandler())
_log.propagate = False

FORMAT_VALUE = ": https://www.debian.org/doc/packaging-manuals/copyright-format/1.0/\n"
FORMAT = "Format" + FORMAT_VALUE
LEADS = ["", " ", "  ", "\t", "\n ", "\n\t"]
SEPS = [" ", "  ", "\t", "\n ", "\n  ", "\n\t", " \n "]


# ------------------------------------------------------------------------------------------
# case validation (the oracle must survive anything the shrinker or a replay file hands it)


def _is_pattern_list(x):
    return (isinstance(x, list) and len(x) >= 1 and
            all(isinstance(p, str) and p != "" and not any(ch.isspace() for ch in p) for p in x))


def _is_glob_list(x):
    """A list for globs_to_re() itself: any non-empty strings."""
    return isinstance(x, list) and len(x) >= 1 and all(isinstance(p, str) and p != "" for p in x)


def _is_given_list(x):
    """A list of non-empty patterns that the white-space separated Files field cannot carry: some
    pattern holds white space (at an end or inside).  The setter / create() may refuse it."""
    return _is_glob_list(x) and not _is_pattern_list(x)


STYLES = ("asis", "lower", "upper", "swap")


class Speller(object):
    """Spells the field names of a document the harness writes out: occurrence k of a field name
    is written in style fieldcase[k % len(fieldcase)] (deb822 field names are case-insensitive).
    Without a usable "fieldcase" every name is written as the specification spells it."""

    def __init__(self, fieldcase):
        self.styles = [x for x in fieldcase if x in STYLES] if isinstance(fieldcase, list) else []
        self.k = 0
        self.respelt = set()

    def __call__(self, field):
        if not self.styles:
            return field
        style = self.styles[self.k % len(self.styles)]
        self.k += 1
        out = {"asis": field, "lower": field.lower(), "upper": field.upper(),
               "swap": field.swapcase()}[style]
        if out != field:
            self.respelt.add(field)
        return out

    def labels(self, labels):
        for f in self.respelt:
            labels.add("field-name-in-other-letter-case:" + f)


OPTIONAL_FIELDS = ("Copyright", "License")


def _omit(x):
    """The fields a Files paragraph is written without (anything unusable means none)."""
    if isinstance(x, list):
        return [f for f in OPTIONAL_FIELDS if f in x]
    return []


def files_para_text(patterns, seps, omit, sp=None):
    sp = sp or Speller(None)
    return (files_field(patterns, seps, sp("Files"))
            + ("" if "Copyright" in omit else sp("Copyright") + ": c\n")
            + ("" if "License" in omit else sp("License") + ": L\n"))


def _is_names(x):
    return isinstance(x, list) and all(isinstance(n, str) for n in x)


def _sep(seps, i):
    """Separator i of a Files field (0 = after the colon); anything unusable means ' '."""
    allowed = LEADS if i == 0 else SEPS
    if isinstance(seps, list) and seps:
        s = seps[i % len(seps)]
        if s in allowed:
            return s
    return " "


def files_value(patterns, seps):
    return "".join(_sep(seps, i) + p for i, p in enumerate(patterns))


def files_field(patterns, seps, name="Files"):
    return name + ":" + files_value(patterns, seps) + "\n"


# ------------------------------------------------------------------------------------------
# the forms in which a document reaches Copyright(...)

INPUTS = ("text-file", "text-lines", "bytes-file", "byte-lines")
# ASCII-compatible codecs (field names and line ends are ASCII bytes in all of them) with letters
# each of them can spell; the generators put these letters into patterns and names
CODECS = {
    "utf-8": "\u00e9\u0427\u0142\u65e5",
    "koi8-r": "\u0427\u0418\u0422\u0439\u0451",
    "cp1251": "\u0415\u0451\u0416\u044f",
    "iso8859-2": "\u0142\u0105\u017a\u0118",
    "iso8859-7": "\u03c0\u03b7\u03b3\u0391",
    "latin-1": "\u00e9\u00ff\u00c5\u00df",
    "shift_jis": "\u65e5\u672c\u30a2\u8868",
}


def _lines(text):
    ls = text.split("\n")
    if ls and ls[-1] == "":
        ls.pop()
    return [l + "\n" for l in ls]


def read_document(text, case, labels):
    """Copyright(...) over ``text`` in the input form the case asks for."""
    inp = case.get("input")
    if inp not in INPUTS:
        inp = "text-file"
    labels.add("input:" + inp)
    kw = {}
    if isinstance(case.get("strict"), bool):
        kw["strict"] = case["strict"]
        labels.add("strict=%s" % case["strict"])
    if inp == "text-file":
        return C.Copyright(io.StringIO(text), **kw)
    if inp == "text-lines":
        return C.Copyright(_lines(text), **kw)
    enc = case.get("enc")
    if enc not in CODECS:
        enc = "utf-8"
    try:
        raw = text.encode(enc)
        if raw.decode(enc) != text:
            raise UnicodeError
    except UnicodeError:
        enc = "utf-8"
        raw = text.encode(enc)
    labels.add("enc:" + enc)
    if any(ord(ch) > 127 for ch in text):
        labels.add("bytes-input-with-non-ascii-text")
    if inp == "bytes-file":
        return C.Copyright(io.BytesIO(raw), encoding=enc, **kw)
    return C.Copyright([l.encode(enc) for l in _lines(text)], encoding=enc, **kw)


def read_maybe_refused(text, case, labels, incomplete):
    """read_document; None when a document with an incomplete paragraph is refused with the
    format error although strict=False was not asked for (the one refusal the contract allows)."""
    try:
        return read_document(text, case, labels)
    except C.MachineReadableFormatError:
        if incomplete and case.get("strict") is not False:
            labels.add("incomplete-paragraph-refused-by-strict-parse")
            return None
        raise


# ------------------------------------------------------------------------------------------
# handles through which the Files value of a live paragraph can be changed

HANDLES = ("own", "deb822", "twin")


def wrap_para(patterns, omit=(), sp=None):
    """(paragraph, the Deb822 it wraps): the public constructor over a caller-owned Deb822.
    With fields left out the constructor is told strict=False (its documented way to accept
    such data).  ``sp`` spells the keys the harness stores the fields under."""
    sp = sp or Speller(None)
    d = D.Deb822()
    d[sp("Files")] = " ".join(patterns)
    if "Copyright" not in omit:
        d[sp("Copyright")] = "c"
    if "License" not in omit:
        d[sp("License")] = "L"
    if omit:
        return C.FilesParagraph(d, strict=False), d
    return C.FilesParagraph(d), d


def set_files(p, d, twin, patterns, handle, seps=None):
    """Make ``patterns`` the Files list of paragraph ``p`` through the given handle."""
    if handle == "deb822" and d is not None:
        d["Files"] = files_value(patterns, seps).lstrip(" \t")
    elif handle == "twin" and twin is not None:
        twin.files = list(patterns)
    else:
        p.files = list(patterns)


# ------------------------------------------------------------------------------------------
# reference


def ref_tokens(patterns):
    """Token lists of all patterns, or None when at least one pattern is illegal."""
    try:
        return [G.parse(p) for p in patterns]
    except G.GlobError:
        return None


class Ref(object):
    """What the reference says about one pattern list; answers are memoised per name."""

    def __init__(self, patterns):
        self.patterns = list(patterns)
        self.toklist = ref_tokens(patterns)
        self.legal = self.toklist is not None
        self._rev = [tuple(reversed(t)) for t in self.toklist] if self.legal else None
        self._memo = {}

    def info(self, name):
        """(hits, pre, suf): indexes of the patterns matching the whole name / a proper prefix /
        a proper suffix of it.  Only for legal lists."""
        r = self._memo.get(name)
        if r is None:
            n = len(name)
            rname = name[::-1]
            hits, pre, suf = [], [], []
            for i, t in enumerate(self.toklist):
                ends = G.prefix_ends(t, name)
                full = bool(ends) and ends[-1] == n
                if full != G.match_rec(t, name):   # never enters the library -> harness error
                    raise AssertionError("reference matchers disagree on %r %r" % (t, name))
                if full:
                    hits.append(i)
                if ends and ends[0] < n:
                    pre.append(i)
                # a suffix of the name matches t  <=>  reversed t matches a prefix of the reversed name
                rends = G.prefix_ends(self._rev[i], rname)
                if rends and rends[0] < n:
                    suf.append(i)
            r = self._memo[name] = (hits, pre, suf)
        return r

    def matches(self, name):
        return bool(self.info(name)[0])


def mismatch_sig(ref, name, got):
    """Root-cause class of a wrong answer of matches()."""
    hits, pre, suf = ref.info(name)
    if got:
        if pre:
            return "match-not-end-anchored"
        if suf:
            return "match-not-start-anchored"
        return "false-match"
    kinds = set(tok[0] for i in hits for tok in ref.toklist[i])
    if "\n" in name:
        return "missed-match:newline-in-name"
    if G.STAR in kinds:
        return "missed-match:star"
    if G.ANY in kinds:
        return "missed-match:question-mark"
    return "missed-match:literal"


def observe(p, ref, names, where, labels=None, fresh_check=False):
    """Compare p.matches(name) with the reference for every name. Returns #near-miss names.

    ``labels`` None = compare only (repeat observations of the same list)."""
    patterns = ref.patterns
    near = 0
    for name in names:
        try:
            got = p.matches(name)
        except C.MachineReadableFormatError as e:
            if ref.legal:
                sig = "legal-pattern-rejected"
                if fresh_check and _fresh_ok(ref, name):
                    sig = "stale-pattern-after-reassign"
                raise Violation(sig, "%s: Files %r, matches(%r) raised %s"
                                % (where, patterns, name, short(str(e), 80)))
            if labels is not None:
                labels.add("format-error-reported")
            continue
        if not ref.legal:
            sig = "illegal-escape-accepted"
            if fresh_check and _fresh_ok(ref, name):
                sig = "stale-pattern-after-reassign"
            raise Violation(sig, "%s: Files %r has an illegal escape but matches(%r) returned %r"
                            % (where, patterns, name, got))
        hits, pre, suf = ref.info(name)
        exp = bool(hits)
        if bool(got) != exp:
            sig = mismatch_sig(ref, name, bool(got))
            if fresh_check and _fresh_ok(ref, name):
                sig = "stale-pattern-after-reassign"
            raise Violation(sig, "%s: Files %r, matches(%r) = %r, glob semantics say %r"
                            % (where, patterns, name, got, exp))
        if labels is None:
            continue
        # classification for the evidence
        if pre or suf:
            near += 1
        if exp:
            labels.add("name-matches")
            if hits[-1] != len(patterns) - 1:
                labels.add("matched-only-by-non-last-pattern")
            for i in hits:
                t = ref.toklist[i]
                wild = any(tok[0] != G.LIT for tok in t)
                if wild and name.count("/") > sum(1 for tok in t if tok == (G.LIT, "/")):
                    labels.add("wildcard-swallows-slash")
                if wild and "\n" in name:
                    labels.add("wildcard-swallows-newline")
        else:
            labels.add("name-does-not-match")
            if pre:
                labels.add("near-miss:pattern-matches-proper-prefix")
                if pre[0] != len(patterns) - 1:
                    labels.add("near-miss:non-last-pattern-matches-proper-prefix")
            if suf:
                labels.add("near-miss:pattern-matches-proper-suffix")
    return near


def _fresh_ok(ref, name):
    """Does a brand-new paragraph holding the same list answer correctly for ``name``?"""
    p = C.FilesParagraph.create(list(ref.patterns), "c", C.License("L"))
    try:
        got = p.matches(name)
    except C.MachineReadableFormatError:
        return not ref.legal
    return ref.legal and bool(got) == ref.matches(name)


def pattern_labels(patterns, labels):
    n = len(patterns)
    labels.add("patterns:%s" % (n if n < 3 else "3+"))
    for p in patterns:
        if "\n" in p:
            labels.add("pattern-contains-newline")
        if " " in p or "\t" in p:
            labels.add("pattern-contains-blank")
        try:
            toks = G.parse(p)
        except G.GlobError:
            labels.add("illegal:trailing-backslash" if _trailing(p) else "illegal:bad-escape")
            continue
        if any(t[0] == G.STAR for t in toks):
            labels.add("has-star")
        if any(t[0] == G.ANY for t in toks):
            labels.add("has-question-mark")
        if "\\" in p:
            labels.add("has-escape")


def _trailing(p):
    i = 0
    while i < len(p):
        if p[i] == "\\":
            if i + 1 >= len(p):
                return True
            i += 2
        else:
            i += 1
    return False


# ------------------------------------------------------------------------------------------
# the oracle


def check(case):
    if not isinstance(case, dict) or not _is_names(case.get("names")):
        return (False, ("invalid-case-skipped",))
    kind = case.get("kind")
    if kind not in ("para", "doc", "globs"):
        return (False, ("invalid-case-skipped",))
    extra = convert_before(case)
    if kind == "para":
        nt, labels = check_para(case)
    elif kind == "doc":
        nt, labels = check_doc(case)
    else:
        nt, labels = check_globs(case)
    if extra and "invalid-case-skipped" not in labels:
        labels = sorted(set(labels) | extra)
    return (nt, labels)


class Converted(object):
    """A pattern list handed to globs_to_re() directly; matches() asks the expression it returned
    the way FilesParagraph.matches does (fullmatch).  A list the function refuses is refused again
    on every call, like a paragraph's."""

    def __init__(self, patterns):
        self.patterns = [str(p) for p in patterns]
        self.pat = None

    def matches(self, name):
        if self.pat is None:
            pat = C.globs_to_re(list(self.patterns))
            if not hasattr(pat, "fullmatch"):
                raise Violation("conversion-returned-no-pattern",
                                "globs_to_re(%r) returned %r" % (self.patterns, pat))
            self.pat = pat
        return self.pat.fullmatch(name) is not None


def lists_under_test(case):
    """Every pattern list the case proper is going to use (for the evidence labels)."""
    out = []
    for key in ("patterns", "prev"):
        if _is_glob_list(case.get(key)):
            out.append(case[key])
    for e in case.get("paras") or []:
        if isinstance(e, list) and len(e) >= 2 and e[0] == "F" and _is_glob_list(e[1]):
            out.append(e[1])
    for e in case.get("edits") or []:
        if isinstance(e, list) and e and _is_glob_list(e[-1]):
            out.append(e[-1])
        elif isinstance(e, list) and len(e) >= 3 and _is_glob_list(e[2]):
            out.append(e[2])
    return out


def convert_before(case):
    """The lists of "before" go through globs_to_re() first, in this very process, each asked about
    every name of the case.  Returns evidence labels."""
    before = case.get("before")
    labels = set()
    if not isinstance(before, list):
        return labels
    tested = lists_under_test(case)
    done = 0
    for k, bl in enumerate(before):
        if not _is_glob_list(bl):
            continue
        ref = Ref(bl)
        observe(Converted(bl), ref, case["names"], "globs_to_re of list %d converted before the case" % k)
        done += 1
        for t in tested:
            if bl == t:
                labels.add("before:the-same-list")
            elif "\n".join(bl) == "\n".join(t):
                labels.add("before:different-list-with-equal-newline-joined-text")
            elif "".join(bl).replace("\n", "") == "".join(t).replace("\n", ""):
                labels.add("before:list-joined-or-split-elsewhere")
            elif sorted(bl) == sorted(t):
                labels.add("before:permutation")
            elif len(bl) < len(t) and (t[:len(bl)] == bl or t[len(t) - len(bl):] == bl):
                labels.add("before:prefix-or-suffix-of-the-list")
        if not ref.legal:
            labels.add("before:illegal-list")
    if done:
        labels.add("before:%s-lists-converted-first" % (done if done < 3 else "3+"))
    return labels


def check_globs(case):
    patterns, names = case.get("patterns"), case["names"]
    if not _is_glob_list(patterns):
        return (False, ("invalid-case-skipped",))
    labels = set(["globs", "via:globs_to_re"])
    pattern_labels(patterns, labels)
    ref = Ref(patterns)
    near = observe(Converted(patterns), ref, names, "globs_to_re", labels)
    # a second conversion of the same list, then the lists converted first once more: none of the
    # answers may have been changed by the conversions in between
    observe(Converted(patterns), ref, names[:2], "globs_to_re, second conversion")
    before = case.get("before")
    if isinstance(before, list):
        for k, bl in enumerate(before[:2]):
            if _is_glob_list(bl):
                observe(Converted(bl), Ref(bl), names[:3],
                        "globs_to_re of list %d, converted again after the list under test" % k)
    nontrivial = len(patterns) >= 2 and ref.legal and near > 0
    return (nontrivial, sorted(labels))


def new_para(patterns):
    return C.FilesParagraph.create(list(patterns), "c", C.License("L"))


def check_para(case):
    patterns, names, via = case.get("patterns"), case["names"], case.get("via")
    if via in ("create", "assign") and _is_given_list(patterns):
        return check_given(case)
    if not _is_pattern_list(patterns) or via not in ("create", "assign", "parse"):
        return (False, ("invalid-case-skipped",))
    labels = set(["para", "via:" + via])
    pattern_labels(patterns, labels)
    near = 0
    ref = Ref(patterns)
    sp = Speller(case.get("fieldcase"))
    if via == "create":
        p = new_para(patterns)
        readback(p, patterns, "create")
        near = observe(p, ref, names, "create", labels)
        # asking twice must not change the answer (compiled pattern is cached)
        observe(p, ref, names[:2], "create, second call")
    elif via == "assign":
        prev = case.get("prev")
        if not _is_pattern_list(prev):
            return (False, ("invalid-case-skipped",))
        if prev == patterns:
            labels.add("reassign-same-list")
        pref = Ref(prev)
        if not pref.legal:
            labels.add("reassign-from-illegal-list")
        handle = case.get("handle") if case.get("handle") in HANDLES else "own"
        labels.add("handle:" + handle)
        seps = case.get("seps")
        d = twin = None
        if handle == "own":
            p = new_para(prev)
        else:
            p, d = wrap_para(prev, (), sp)
            if handle == "twin":
                twin = C.FilesParagraph(d)
        how = "Files changed through %s: " % handle
        observe(p, pref, names, "before re-assignment")
        if twin is not None:
            observe(twin, pref, names[:2], "twin before re-assignment")
        set_files(p, d, twin, patterns, handle, seps)
        readback(p, patterns, how + "assign")
        near = observe(p, ref, names, how + "after Files = new", labels, fresh_check=True)
        if twin is not None:
            observe(twin, ref, names[:2], how + "twin after Files = new", fresh_check=True)
        set_files(p, d, twin, prev, handle, seps)
        readback(p, prev, how + "assign old")
        observe(p, pref, names, how + "after Files = old again", fresh_check=True)
        # the third change mixes the routes (own property after another handle) in half the cases
        set_files(p, d, twin, patterns, "own" if len(names) % 2 else handle, seps)
        readback(p, patterns, how + "assign new again")
        observe(p, ref, names, how + "after Files = new again", fresh_check=True)
        if twin is not None:
            observe(twin, ref, names[:2], how + "twin after Files = new again", fresh_check=True)
    else:
        seps = case.get("seps")
        omit = _omit(case.get("omit"))
        for f in omit:
            labels.add("files-paragraph-without-" + f)
        text = sp("Format") + FORMAT_VALUE + "\n" + files_para_text(patterns, seps, omit, sp)
        if "\n" in files_field(patterns, seps)[:-1]:
            labels.add("parse:patterns-on-continuation-lines")
        doc = read_maybe_refused(text, case, labels, bool(omit))
        if doc is None:
            return (False, sorted(labels))
        ps = list(doc.all_files_paragraphs())
        if len(ps) != 1:
            raise Violation("files-field-misread", "%r parsed into %d Files paragraphs" % (text, len(ps)))
        readback(ps[0], patterns, "parse of %r" % text)
        near = observe(ps[0], ref, names, "parsed", labels)
        if sp.respelt:
            # the lookup of a document sees the paragraph too
            doc_observe(doc, [patterns], names, "document %s" % short(text, 200), set())
    sp.labels(labels)
    nontrivial = len(patterns) >= 2 and ref.legal and near > 0
    return (nontrivial, sorted(labels))


ALTERED = "accepted-list-matched-as-a-different-list"


def give(fn, labels):
    """Hand a list the Files field cannot carry to the setter / create().  True = accepted,
    False = refused with ValueError (MachineReadableFormatError is one) - both are allowed."""
    try:
        fn()
    except ValueError:
        labels.add("given-list-refused")
        return False
    labels.add("given-list-accepted")
    return True


def observe_given(p, ref, names, where, labels=None):
    """observe() for a list that was accepted although the field cannot carry it: the paragraph
    has to match as the patterns that were GIVEN say (whatever it stored)."""
    try:
        return observe(p, ref, names, where, labels)
    except Violation as v:
        raise Violation(ALTERED, "%s [the list holds white space and was accepted, so it has to "
                        "be matched as given; .files reads back %r]" % (v.msg, _files_of(p)))


def _files_of(p):
    try:
        return p.files
    except Exception as e:      # only for the message
        return "<%s>" % type(e).__name__


def clean_relative(patterns):
    """The list a lenient setter might store instead: every pattern split at white space."""
    return [q for pt in patterns for q in pt.split()]


def check_given(case):
    """via create / assign with a list in which a pattern holds white space.  EITHER the list is
    refused (ValueError) and the paragraph goes on matching what it held (and shows) before, OR
    it is accepted and matches() follows the patterns as they were given."""
    patterns, names, via = case["patterns"], case["names"], case["via"]
    labels = set(["para", "via:" + via, "given-list-holds-white-space"])
    pattern_labels(patterns, labels)
    ref = Ref(patterns)
    near = 0
    if via == "create":
        box = []
        if give(lambda: box.append(new_para(patterns)), labels):
            near = observe_given(box[0], ref, names, "create", labels)
            observe_given(box[0], ref, names[:2], "create, second call")
        return (len(patterns) >= 2 and ref.legal and near > 0, sorted(labels))
    prev = case.get("prev")
    if not _is_pattern_list(prev):
        return (False, ("invalid-case-skipped",))
    pref = Ref(prev)
    handle = "twin" if case.get("handle") == "twin" else "own"    # the routes that use the setter
    labels.add("handle:" + handle)
    d = twin = None
    if handle == "own":
        p = new_para(prev)
    else:
        p, d = wrap_para(prev, (), Speller(case.get("fieldcase")))
        twin = C.FilesParagraph(d)
    how = "Files set through %s to a list holding white space: " % handle
    clean = clean_relative(patterns)
    held, href = prev, pref
    nt = False
    observe(p, pref, names, "before re-assignment")
    for rnd, nxt in enumerate((patterns, clean, patterns, prev)):
        if not nxt:
            continue
        if nxt is patterns:
            if give(lambda: set_files(p, d, twin, patterns, handle), labels):
                held, href = patterns, ref
                n = observe_given(p, ref, names, how + "accepted (round %d)" % rnd, labels)
                nt = nt or (n > 0 and len(patterns) >= 2 and ref.legal)
                if twin is not None:
                    observe_given(twin, ref, names[:2], how + "accepted, twin (round %d)" % rnd)
                continue
            # refused: the paragraph still holds - and matches - what it held before
            where = how + "refused (round %d), paragraph still holds %r" % (rnd, held)
            if held is patterns:
                observe_given(p, href, names, where)
            else:
                readback(p, held, where)
                n = observe(p, href, names, where, labels if rnd == 0 else None, fresh_check=True)
                nt = nt or (n > 0 and len(held) >= 2 and href.legal)
        else:
            set_files(p, d, twin, nxt, handle)
            held, href = nxt, (pref if nxt is prev else Ref(nxt))
            where = how + "then Files = %r (round %d)" % (nxt, rnd)
            readback(p, nxt, where)
            observe(p, href, names, where, fresh_check=True)
            if twin is not None:
                observe(twin, href, names[:2], where + ", twin", fresh_check=True)
    return (nt, sorted(labels))


def readback(p, patterns, where):
    got = p.files
    if list(got) != list(patterns):
        raise Violation("files-field-misread", "%s: .files is %r, not %r" % (where, got, patterns))


def check_doc(case):
    paras, names, via = case.get("paras"), case["names"], case.get("via")
    if via not in ("dump", "text") or not isinstance(paras, list):
        return (False, ("invalid-case-skipped",))
    norm = []
    for e in paras:
        if isinstance(e, list) and len(e) >= 2 and e[0] == "F" and _is_pattern_list(e[1]):
            norm.append(("F", e[1], e[2] if len(e) > 2 else None, _omit(e[3] if len(e) > 3 else None)))
        elif (isinstance(e, list) and len(e) >= 2 and e[0] == "F" and via == "dump"
              and _is_given_list(e[1])):
            # a list holding white space: handed to create(), which may refuse it
            norm.append(("F", e[1], None, []))
        elif (isinstance(e, list) and len(e) >= 2 and e[0] == "X" and isinstance(e[1], str)
              and e[1].strip() == e[1] and e[1] != "" and e[1].isprintable()):
            if via == "text":            # there is no way to build such a paragraph
                norm.append(("X", e[1], None))
        elif (isinstance(e, list) and len(e) >= 2 and e[0] == "L" and isinstance(e[1], str)
              and e[1].strip() == e[1] and e[1] != "" and e[1].isprintable()):
            norm.append(("L", e[1], None))
        else:
            return (False, ("invalid-case-skipped",))
    flists = [e[1] for e in norm if e[0] == "F"]
    if not any(_is_pattern_list(fl) for fl in flists):
        return (False, ("invalid-case-skipped",))
    labels = set(["doc", "via:doc-" + via, "doc:files-paragraphs=%d" % min(len(flists), 4)])
    wrap = via == "dump" and case.get("wrap") is True
    sp = Speller(case.get("fieldcase"))
    given = set()       # indexes of Files paragraphs holding an accepted list with white space
    incomplete = False
    for e in norm:
        if e[0] == "X":
            labels.add("doc:paragraph-with-neither-files-nor-license")
            incomplete = True
        elif e[0] == "F" and e[3] and (via == "text" or wrap):
            for f in e[3]:
                labels.add("files-paragraph-without-" + f)
            incomplete = True
    kinds = [e[0] for e in norm]
    if "L" in kinds and "F" in kinds[kinds.index("L"):]:
        labels.add("doc:license-paragraph-before-a-files-paragraph")
    for fl in flists:
        pattern_labels(fl, labels)

    if via == "dump":
        doc = C.Copyright()
        if wrap:
            labels.add("doc:paragraphs-wrap-caller-owned-deb822")
        handles = []
        flists = []
        for e in norm:
            if e[0] == "F" and _is_given_list(e[1]):
                labels.add("given-list-holds-white-space")
                box = []
                if not give(lambda: box.append(new_para(e[1])), labels):
                    continue            # refused: the document goes without this paragraph
                given.add(len(flists))
                flists.append(e[1])
                handles.append(None)
                doc.add_files_paragraph(box[0])
            elif e[0] == "F":
                if wrap:
                    p, d = wrap_para(e[1], e[3], sp)
                    handles.append(d)
                else:
                    p = new_para(e[1])
                    handles.append(None)
                flists.append(e[1])
                doc.add_files_paragraph(p)
            else:
                doc.add_license_paragraph(C.LicenseParagraph.create(C.License(e[1], "text")))
        nt = doc_observe(doc, flists, names, "built document", labels, given=given)
        nt = apply_edits(doc, flists, names, case.get("edits"), labels, handles, wrap, given) or nt
        if given:
            # what such a paragraph stored is its own affair; the written form is not compared
            labels.add("doc:not-re-read(holds-an-accepted-list-with-white-space)")
        else:
            text = doc.dump()
            doc2 = read_maybe_refused(text, case, labels, incomplete)
            if doc2 is not None:
                doc_observe(doc2, flists, names, "re-read document %s" % short(text, 200), set())
    else:
        chunks = [sp("Format") + FORMAT_VALUE]
        for e in norm:
            if e[0] == "F":
                chunks.append(files_para_text(e[1], e[2], e[3], sp))
            elif e[0] == "X":
                chunks.append("%s: %s\n" % (sp("Comment"), e[1]))
            else:
                chunks.append("%s: %s\n text\n" % (sp("License"), e[1]))
        text = "\n".join(chunks)
        doc = read_maybe_refused(text, case, labels, incomplete)
        if doc is None:
            return (False, sorted(labels))
        nt = doc_observe(doc, flists, names, "document %s" % short(text, 200), labels)
        nt = apply_edits(doc, flists, names, case.get("edits"), labels,
                         [None] * len(flists), False, given) or nt
    sp.labels(labels)
    return (nt and len(flists) >= 2, sorted(labels))


def apply_edits(doc, flists, names, edits, labels, handles, wrap, given):
    """The same document object is queried again after each change to it: which paragraph a name
    resolves to is a function of the current pattern lists only, not of earlier answers.
    ``handles[i]`` is the Deb822 under Files paragraph i when the harness built it (else None);
    ``given`` holds the indexes of the paragraphs whose list holds white space (and was accepted)."""
    nt = False
    if not isinstance(edits, list) or not flists:
        return nt
    for k, e in enumerate(edits):
        if not (isinstance(e, list) and len(e) >= 2):
            continue
        if (e[0] == "files" and len(e) in (3, 4) and isinstance(e[1], int)
                and not isinstance(e[1], bool) and _is_given_list(e[2])):
            # a list the field cannot carry goes through the paragraph's own setter: refused
            # (nothing changes) or accepted (the lookup follows the patterns as given)
            i = e[1] % len(flists)
            p = list(doc.all_files_paragraphs())[i]
            labels.add("given-list-holds-white-space")
            if give(lambda: set_files(p, None, None, tuple(e[2]), "own"), labels):
                flists[i] = list(e[2])
                given.add(i)
            labels.add("doc-edit:files-reassigned")
        elif (e[0] == "add" and _is_given_list(e[1])):
            labels.add("given-list-holds-white-space")
            box = []
            if give(lambda: box.append(new_para(e[1])), labels):
                doc.add_files_paragraph(box[0])
                handles.append(None)
                given.add(len(flists))
                flists.append(list(e[1]))
                labels.add("doc-edit:paragraph-added")
        elif (e[0] == "files" and len(e) in (3, 4) and isinstance(e[1], int)
                and not isinstance(e[1], bool) and _is_pattern_list(e[2])):
            i = e[1] % len(flists)
            p = list(doc.all_files_paragraphs())[i]
            handle = e[3] if len(e) == 4 and e[3] in HANDLES and handles[i] is not None else "own"
            if handle == "own":
                p.files = tuple(e[2])
            else:
                twin = None
                if handle == "twin":
                    complete = all(f in handles[i] for f in OPTIONAL_FIELDS)
                    twin = (C.FilesParagraph(handles[i]) if complete
                            else C.FilesParagraph(handles[i], strict=False))
                set_files(p, handles[i], twin, e[2], handle)
            flists[i] = list(e[2])
            given.discard(i)
            labels.add("doc-edit:files-reassigned")
            if handle != "own":
                labels.add("doc-edit:files-changed-through-" + handle)
        elif e[0] == "add" and _is_pattern_list(e[1]):
            if wrap:
                p, d = wrap_para(e[1])
            else:
                p, d = new_para(e[1]), None
            doc.add_files_paragraph(p)
            handles.append(d)
            flists.append(list(e[1]))
            labels.add("doc-edit:paragraph-added")
        else:
            continue
        nt = doc_observe(doc, flists, names, "document after edit %d %r" % (k, e), labels,
                         fresh_check=not given, given=given) or nt
    return nt


def plainer(name):
    """Plainer spellings of a path name (what a lenient lookup might try instead); evidence only."""
    out = []
    for c in (name[2:] if name.startswith("./") else name, name.lstrip("/"), name.rstrip("/"),
              posixpath.normpath(name) if name else name, name.strip(),
              unicodedata.normalize("NFC", name), name.replace("//", "/")):
        if c != name and c not in out:
            out.append(c)
    return out


def doc_observe(doc, flists, names, where, labels, fresh_check=False, given=()):
    ps = list(doc.all_files_paragraphs())
    if len(ps) != len(flists):
        raise Violation("files-field-misread", "%s: %d Files paragraphs, expected %d"
                        % (where, len(ps), len(flists)))
    for i, (p, fl) in enumerate(zip(ps, flists)):
        if i not in given:
            readback(p, fl, where)
    refs = [Ref(fl) for fl in flists]
    some_illegal = any(not r.legal for r in refs)
    if some_illegal:
        labels.add("doc:has-illegal-pattern")
    # each paragraph on its own first: a wrong matches() keeps its own root-cause signature
    for i, (p, r) in enumerate(zip(ps, refs)):
        if i in given:
            observe_given(p, r, names, "Files paragraph %d of %s" % (i, where))
        else:
            observe(p, r, names, "Files paragraph %d of %s" % (i, where), fresh_check=fresh_check)
    nontrivial = False
    for name in names:
        hits = [i for i, r in enumerate(refs) if r.legal and r.matches(name)]
        exp = hits[-1] if hits else None
        try:
            got = doc.find_files_paragraph(name)
        except C.MachineReadableFormatError:
            if not some_illegal:
                raise Violation("legal-pattern-rejected", "%s: find_files_paragraph(%r) raised"
                                % (where, name))
            labels.add("format-error-reported")
            continue
        if got is None:
            gi = None
        else:
            gi = [i for i, p in enumerate(ps) if p is got]
            if not gi:
                raise Violation("find-returned-foreign-object",
                                "%s: find_files_paragraph(%r) returned %r which is not one of the "
                                "document's Files paragraphs" % (where, name, got))
            gi = gi[0]
        if gi != exp:
            if gi is None:
                sig = "find-missed-matching-paragraph"
            elif gi in hits:
                sig = "find-not-last-match"
            else:
                sig = "find-returned-non-matching-paragraph"
            raise Violation(sig, "%s: find_files_paragraph(%r) gave Files paragraph %r %r, the last "
                            "matching one is %r (matching: %r)"
                            % (where, name, gi,
                               flists[gi] if gi is not None else None, exp, hits))
        if exp is None:
            labels.add("doc:no-paragraph-matches")
            if any(r.legal and r.matches(c) for c in plainer(name) for r in refs):
                labels.add("doc:unmatched-name-is-a-respelling-of-a-matched-name")
        else:
            if len(hits) >= 2:
                labels.add("doc:name-matched-by-several-paragraphs")
            if exp != len(flists) - 1:
                labels.add("doc:last-match-is-not-last-paragraph")
        nearp = [i for i, r in enumerate(refs)
                 if r.legal and i not in hits and (r.info(name)[1] or r.info(name)[2])]
        if nearp:
            labels.add("doc:name-nearly-matches-a-paragraph")
        if len(hits) >= 2 or (hits and nearp):
            nontrivial = True
    return nontrivial


# ------------------------------------------------------------------------------------------
# enumerations

E_TOKENS = ["a", "/", "*", "?", "\\*", "\\\\"]
E_ILLEGAL = ["\\a", "a\\a", "\\a*", "\\", "a\\", "*\\", "\\/", "\\\\\\"]
E_ILLEGAL2 = ["\\a", "a\\", "\\\\\\"]      # in two-pattern lists (keeps error cases near 13 %)
E_NAMECHARS = ["a", "/", "*", "\\", "\n"]


def _words(alphabet, lo, hi):
    return ["".join(t) for n in range(lo, hi + 1) for t in itertools.product(alphabet, repeat=n)]


def enum_lists(npat, maxtok, maxname, tokens=None, illegal=E_ILLEGAL):
    def gen():
        pats = _words(tokens or E_TOKENS, 1, maxtok) + list(illegal)
        names = _words(E_NAMECHARS, 0, maxname)
        for pl in itertools.product(pats, repeat=npat):
            pl = list(pl)
            for name in names:
                yield {"kind": "para", "via": "create", "patterns": pl, "names": [name]}
    return gen


def enum_docs():
    pats = ["a", "*", "a*", "?", "/", "*a"]
    names = _words(["a", "/"], 0, 3)
    for n in (1, 2, 3):
        for combo in itertools.product(pats, repeat=n):
            paras = [["F", [p], [" "]] for p in combo]
            for k, name in enumerate(names):
                yield {"kind": "doc", "via": "dump" if k % 2 == 0 else "text",
                       "paras": paras, "names": [name]}
    # two paragraphs, every name asked, then one paragraph's list replaced and every name asked again
    for combo in itertools.product(pats, repeat=2):
        paras = [["F", [p], [" "]] for p in combo]
        for which in (0, 1):
            for newp in pats:
                if newp != combo[which]:
                    yield {"kind": "doc", "via": "dump" if which else "text", "paras": paras,
                           "names": names, "edits": [["files", which, [newp]]]}
    # the same over paragraphs wrapping Deb822 objects the harness keeps, changed through those
    # or through a second wrapper
    for combo in itertools.product(pats, repeat=2):
        paras = [["F", [p], [" "]] for p in combo]
        for which in (0, 1):
            for k, newp in enumerate(pats):
                if newp != combo[which]:
                    yield {"kind": "doc", "via": "dump", "wrap": True, "paras": paras,
                           "names": names,
                           "edits": [["files", which, [newp], HANDLES[1 + (k + which) % 2]]]}


def enum_handles():
    """One paragraph, its list replaced (and put back) through each handle; every name each time."""
    pats = ["a", "*", "a*", "?", "/", "*a", "a/*"]
    names = _words(["a", "/"], 0, 3)
    for prev in pats:
        for new in pats:
            if new == prev:
                continue
            for handle in HANDLES:
                for seps in ([" "], ["\n "]):
                    yield {"kind": "para", "via": "assign", "handle": handle, "prev": [prev],
                           "patterns": [new, "a/a/a"], "seps": seps, "names": names}


# Other spellings of a path name.  A Files pattern has to cover the whole name as it is given, so
# a name that no paragraph matches resolves to None even if a plainer spelling of it would match.
SPELLINGS = [
    lambda n: "./" + n,
    lambda n: "/" + n,
    lambda n: n + "/",
    lambda n: "x/../" + n,
    lambda n: "././" + n,
    lambda n: n.replace("/", "//"),
    lambda n: n + "/.",
    lambda n: n.swapcase(),
    lambda n: " " + n,
    lambda n: n + " ",
    lambda n: unicodedata.normalize("NFD", n),
    lambda n: n.replace("/", "\\"),
    lambda n: "../" + n,
    lambda n: n + "\n",
]


def respell(name):
    return [name] + [f(name) for f in SPELLINGS]


def enum_spellings():
    """Documents of 1..2 Files paragraphs (mostly without a catch-all) x every spelling of names
    that match."""
    lists = [["a"], ["a/*"], ["*/b"], ["*.a", "a/b"], ["?"], ["b/?", "a"], ["./a"], ["*"],
             ["\u00e9/*"]]
    bases = ["a", "a/b", "b/a", "b.a", "a/a/b", "\u00e9/a"]
    k = 0
    for n in (1, 2):
        for combo in itertools.product(lists, repeat=n):
            paras = [["F", pl, [" "]] for pl in combo]
            for base in bases:
                k += 1
                yield {"kind": "doc", "via": "dump" if k % 2 else "text", "paras": paras,
                       "names": respell(base)}


# Lists "made of the same characters" as a given one.  What a list matches is a function of the
# list alone, so converting any of these first (same process) must not change an answer.
JOINERS = ["\n", " ", "|", "", "\t", ","]


def siblings(patterns):
    patterns = list(patterns)
    out = []

    def add(l):
        l = [p for p in l if p != ""]
        if l and l != patterns and l not in out:
            out.append(l)

    n = len(patterns)
    for j in JOINERS:
        add([j.join(patterns)])                                   # everything joined
        for k in range(n - 1):                                    # two neighbours merged
            add(patterns[:k] + [j.join(patterns[k:k + 2])] + patterns[k + 2:])
        if j == "":
            continue
        parts = [part for p in patterns for part in p.split(j)]
        add(parts)                                                # split everywhere
        for k, p in enumerate(patterns):                          # split at one place
            if j in p:
                add(patterns[:k] + p.split(j, 1) + patterns[k + 1:])
                add(patterns[:k] + p.rsplit(j, 1) + patterns[k + 1:])
        parts = [q for q in parts if q != ""]
        for k in range(len(parts) - 1):                           # split, then merged elsewhere
            add(parts[:k] + [j.join(parts[k:k + 2])] + parts[k + 2:])
    add(patterns[::-1])
    add(patterns[1:] + patterns[:1])
    add(patterns[:-1])
    add(patterns[1:])
    add(patterns + patterns[:1])
    add(patterns + patterns[-1:])
    return out


def sibling_names(lists):
    """Names the lists disagree about: every pattern read as a name ('*' as nothing and as 'a')."""
    out = []
    for l in lists:
        for p in l:
            for n in (p.replace("*", ""), p.replace("*", "a"), p.replace("\\", "")):
                if n not in out:
                    out.append(n)
    return out


def enum_siblings(maxw=2):
    """Every list of one pattern of <=maxw+2 and of two patterns of <=maxw characters over
    {a * newline} (and some of 3 patterns), converted after all its siblings; paragraphs and
    documents whose lists are met after their joined siblings."""
    words = _words(["a", "*", "\n"], 1, maxw)
    lists = [[w] for w in _words(["a", "*", "\n"], 1, maxw + 2)] + [[v, w] for v in words for w in words]
    lists += [list(t) for t in itertools.product(["a", "b\nb", "*a", "a\n*"], repeat=3)]
    for pl in lists:
        if "\n" not in "".join(pl) and len(pl) == 1:
            continue
        sib = siblings(pl)
        yield {"kind": "globs", "patterns": pl, "before": sib,
               "names": sibling_names([pl] + sib)[:12]}
    pats = ["a", "a*", "*b", "a/b", "b"]
    k = 0
    for x in pats:
        for y in pats:
            if x == y:
                continue
            pl = [x, y]
            sib = siblings(pl)
            names = sibling_names([pl] + sib)[:12]
            for via in ("create", "parse", "assign"):
                k += 1
                case = {"kind": "para", "via": via, "patterns": pl, "before": sib, "names": names,
                        "seps": ["", "\n "] if k % 2 else [" "]}
                if via == "assign":
                    case["prev"] = [y]
                    case["handle"] = HANDLES[k % 3]
                yield case
            for via in ("text", "dump"):
                yield {"kind": "doc", "via": via, "paras": [["F", ["*"], [" "]], ["F", pl, [" ", "\n "]]],
                       "before": sib, "names": names}


CHARS = [chr(i) for i in range(128)] + ["\x85", "\xa0", "\xe9", "\u2028", "\u2029", "\ufeff",
                                         "\U0001f600"]


def enum_chars():
    """Every character of CHARS as a literal and behind a backslash, in lists of 1..2 patterns
    handed to globs_to_re() (only there can a pattern hold white space)."""
    for c in CHARS:
        names = [c, "a" + c, c + "a", "a" + c + "b", "\\" + c, "a\\" + c + "b", "", "a", "b",
                 c + c, "a" + c + c + "b"]
        for pl in ([c], ["a" + c + "b"], ["*" + c], [c + "?"], ["a" + c, c + "b"],
                   ["\\" + c], ["a\\" + c], ["\\" + c + "a"], ["a\\" + c + "b"],
                   ["b", "\\" + c + "a"], ["a\\" + c, "b"], ["*", "\\" + c]):
            yield {"kind": "globs", "patterns": pl, "names": names}


def enum_incomplete():
    """Documents of 1..2 Files paragraphs (+ bystanders) with every subset of {Copyright, License}
    left out of each, read with strict=False / strict=True / the default; the same built over
    Deb822 objects; single paragraphs likewise."""
    lists = [["*"], ["a*"], ["a/*", "b"]]
    names = ["a", "a/a", "b", "ab", "c", ""]
    omits = [[], ["License"], ["Copyright"], ["Copyright", "License"]]
    k = 0
    for strict in (False, True, None):
        for n in (1, 2):
            for combo in itertools.product(lists, repeat=n):
                for om in itertools.product(omits, repeat=n):
                    if not any(om):
                        continue
                    k += 1
                    paras = [["F", pl, ["\n " if k % 3 == 0 else " "], o] for pl, o in zip(combo, om)]
                    if k % 4 == 1:
                        paras.insert(1, ["L", "MIT"])
                    if k % 4 == 2:
                        paras.insert(k % 3, ["X", "see upstream"])
                    case = {"kind": "doc", "via": "text", "paras": paras, "names": names,
                            "input": INPUTS[k % 4]}
                    if strict is not None:
                        case["strict"] = strict
                    yield case
                    if not any(e[0] == "X" for e in paras):
                        case = dict(case, via="dump", wrap=True)
                        if k % 2:
                            case["edits"] = [["files", k, ["b*"], HANDLES[k % 3]]]
                        yield case
        for pl in lists:
            for om in omits[1:]:
                k += 1
                case = {"kind": "para", "via": "parse", "patterns": pl, "omit": om,
                        "seps": [" ", "\n "], "names": names, "input": INPUTS[k % 4]}
                if strict is not None:
                    case["strict"] = strict
                yield case


def field_slots(paras, wrap=False):
    """The field names of a document in the order the harness writes them (see Speller)."""
    out = [] if wrap else ["Format"]
    for e in paras:
        if e[0] == "F":
            om = e[3] if len(e) > 3 else []
            out += ["Files"] + [f for f in OPTIONAL_FIELDS if f not in om]
        elif e[0] == "L" and not wrap:
            out.append("License")
        elif e[0] == "X" and not wrap:
            out.append("Comment")
    return out


def enum_fieldcase():
    """Parsed documents (and paragraphs over caller-built Deb822 objects) whose field names are
    spelt in another letter case: one occurrence at a time in each style, and every assignment of
    the four styles to the names Format / Files / Copyright / License."""
    names = ["a", "a/a", "b", "ab", "c", ""]
    layouts = [
        [["F", ["*"], [" "]], ["F", ["a/*", "b"], ["\n "]], ["L", "MIT"]],
        [["F", ["a*"], [" "]], ["L", "MIT"], ["F", ["*/a", "b"], [" "]]],
        [["F", ["a/*"], [" "]], ["F", ["b"], [" "]], ["F", ["a/a", "c"], [" "]]],
    ]
    k = 0
    for paras in layouts:
        slots = field_slots(paras)
        plans = []
        for i in range(len(slots)):
            for style in STYLES[1:]:
                plans.append(["asis"] * i + [style] + ["asis"] * (len(slots) - i - 1))
        for combo in itertools.product(STYLES, repeat=4):
            if combo != ("asis",) * 4:
                per = dict(zip(("Format", "Files", "Copyright", "License"), combo))
                plans.append([per.get(f, "lower") for f in slots])
        for plan in plans:
            for strict in (False, True, None):
                k += 1
                case = {"kind": "doc", "via": "text", "paras": paras, "names": names,
                        "fieldcase": plan, "input": INPUTS[k % 4]}
                if strict is not None:
                    case["strict"] = strict
                if k % 7 == 0:
                    case["edits"] = [["files", k, ["c*"]]]
                yield case
    # a Files paragraph without Copyright / License under a respelt name (strict decides)
    for style in STYLES[1:]:
        for om in (["License"], ["Copyright"], ["Copyright", "License"]):
            for strict in (False, True, None):
                k += 1
                paras = [["F", ["*"], [" "]], ["F", ["a/*", "b"], [" "], om], ["L", "MIT"]]
                case = {"kind": "doc", "via": "text", "paras": paras, "names": names,
                        "fieldcase": [style], "input": INPUTS[k % 4]}
                if strict is not None:
                    case["strict"] = strict
                yield case
    # single paragraphs
    for combo in itertools.product(STYLES, repeat=4):
        for strict in (False, True, None):
            k += 1
            case = {"kind": "para", "via": "parse", "patterns": ["a/*", "b"], "seps": [" ", "\n "],
                    "names": names, "fieldcase": list(combo), "input": INPUTS[k % 4]}
            if strict is not None:
                case["strict"] = strict
            yield case
    # paragraphs built with FilesParagraph(Deb822) over keys the harness spells
    for combo in itertools.product(STYLES, repeat=3):
        k += 1
        yield {"kind": "doc", "via": "dump", "wrap": True, "fieldcase": list(combo),
               "paras": [["F", ["*"], [" "]], ["F", ["a/*", "b"], [" "]]], "names": names,
               "edits": [["files", k, ["a*"], HANDLES[k % 3]]]}
        yield {"kind": "para", "via": "assign", "handle": HANDLES[1 + k % 2], "prev": ["a*"],
               "patterns": ["a/*", "b"], "seps": [" "], "names": names, "fieldcase": list(combo)}


# white space the Files field cannot carry inside a pattern (str.split() separates at all of them)
WS = [" ", "\t", "\n", "\r", "\x0b", "\x0c", "\x1c", "\x85", "\xa0", "\u2028", "\u3000",
      " \n", "\r\n"]


def given_names(lists):
    out = []
    for n in sibling_names(lists):
        for m in (n, n.strip()):
            if m not in out:
                out.append(m)
    return out


def enum_given():
    """Lists handed to create() / the files setter in which a pattern holds white space at an end,
    at both ends, inside, or is nothing else - through every route that takes a list."""
    bases = ["a", "a*", "*", "a/?", "\\*a"]
    k = 0
    for w in WS:
        for b in bases:
            for x in (w + b, b + w, w + b + w, b + w + "b", b + w + b, w):
                for pl in ([x], [x, "b"], ["b", x]):
                    if pl == [w]:
                        pl = [w, w]
                    clean = clean_relative(pl)
                    rel = [pl] + ([clean] if clean else []) + [[p.strip() for p in pl if p.strip()] or ["b"]]
                    names = given_names(rel)[:14]
                    k += 1
                    yield {"kind": "para", "via": "create", "patterns": pl, "names": names}
                    yield {"kind": "para", "via": "assign", "handle": ("own", "twin")[k % 2],
                           "prev": [["zz"], ["a"], ["*"], ["b", "a*"]][k % 4], "patterns": pl,
                           "names": names}
                    yield {"kind": "doc", "via": "dump", "names": names,
                           "paras": [["F", ["a*"], [" "]], ["F", pl]] + ([["F", ["b"], [" "]]] if k % 2 else []),
                           "edits": [["files", 0, pl], ["files", 1, ["a"]], ["add", pl]][k % 3:][:2]}
                    yield {"kind": "doc", "via": "text", "names": names,
                           "paras": [["F", ["*"], [" "]], ["F", ["a", "b*"], [" "]]],
                           "edits": [["files", k, pl], ["add", pl]]}


def translate(x, table):
    """The case with every pattern and name character replaced according to ``table`` (a
    character-for-character renaming of letters keeps what matches what)."""
    if isinstance(x, str):
        return x.translate(table)
    if isinstance(x, list):
        return [translate(e, table) for e in x]
    return x


def translate_case(case, table):
    out = dict(case)
    for key in ("patterns", "prev", "names", "before"):
        if key in out:
            out[key] = translate(out[key], table)
    if "paras" in out:
        out["paras"] = [[e[0], translate(e[1], table)] + list(e[2:]) if e[0] == "F" else e
                        for e in out["paras"]]
    if "edits" in out:
        out["edits"] = [[e[0], translate(e[1], table)] if e[0] == "add"
                        else [e[0], e[1], translate(e[2], table)] + list(e[3:])
                        for e in out["edits"]]
    return out


def codec_table(enc, k=0):
    """Renaming of the letters \u00e9 a b into letters of the codec (a and b only for odd/even k)."""
    letters = CODECS[enc]
    table = {0xe9: letters[k % len(letters)]}
    if k % 2:
        table[ord("a")] = letters[(k + 1) % len(letters)]
    if k % 3 == 0:
        table[ord("b")] = letters[(k + 2) % len(letters)]
    return table


def enum_encoded():
    """Documents and single paragraphs with letters outside ASCII in their patterns, handed to
    Copyright as bytes in each codec, in each byte form (and, for comparison, as text)."""
    lists = [["\u00e9"], ["\u00e9*"], ["a/\u00e9?"], ["*\u00e9", "b"], ["*"]]
    names = ["\u00e9", "\u00e9a", "a/\u00e9b", "a\u00e9", "b", "\u00e9/", "e", "?"]
    k = 0
    for enc in sorted(CODECS):
        for inp in INPUTS:
            for n in (1, 2):
                for combo in itertools.product(lists, repeat=n):
                    k += 1
                    case = {"kind": "doc", "via": "text" if k % 3 else "dump",
                            "paras": [["F", pl, ["\n " if k % 2 else " "]] for pl in combo],
                            "names": names, "input": inp, "enc": enc}
                    yield translate_case(case, codec_table(enc, k))
            for pl in lists:
                k += 1
                case = {"kind": "para", "via": "parse", "patterns": pl, "seps": [" ", "\n "],
                        "names": names, "input": inp, "enc": enc}
                yield translate_case(case, codec_table(enc, k))


# ------------------------------------------------------------------------------------------
# Hypothesis generators

LITS = "aab//..+(|$é[^)A-"
NAMECHARS = "aab//..*?\\+(|$é[^)A- \n\n"
legal_token = st.one_of(
    st.sampled_from(list(LITS)),
    st.sampled_from(list("ab/.")),
    st.sampled_from(["*", "*", "?"]),
    st.sampled_from(["\\*", "\\?", "\\\\"]),
)
illegal_token = st.sampled_from(["\\a", "\\/", "\\.", "\\é", "\\$"])
stock_pattern = st.sampled_from([
    ["d", "e", "b", "/", "*"], ["*", ".", "i", "n"], ["s", "r", "c", "/", "*"], ["*"], ["?"],
    ["d", "e", "b", "/", "r", "u", "l", "e", "s"], ["*", "/", "M", "k"], ["a", "?", "b"],
    ["a", "*", "b", "*"], ["a", "\\*"], ["\\\\", "a"],
]).map(list)
name_char = st.sampled_from(list(NAMECHARS))
name_text = st.text(alphabet=name_char, max_size=3)


@st.composite
def gen_pattern_tokens(draw, allow_illegal):
    """One pattern as a list of tokens (kept as tokens so that names can be derived from it)."""
    if draw(st.integers(0, 5)) == 0:
        toks = draw(stock_pattern)
    else:
        toks = draw(st.lists(legal_token, min_size=1, max_size=6))
    if allow_illegal:
        how = draw(st.integers(0, 2))
        if how == 0:
            toks = toks + ["\\"]                     # backslash at the very end
        else:
            k = draw(st.integers(0, len(toks)))
            toks = toks[:k] + [draw(illegal_token)] + toks[k:]
    return toks


@st.composite
def gen_list_tokens(draw, maxpat=4):
    n = draw(st.sampled_from([k for k in (1, 2, 2, 2, 3, 3, 4) if k <= maxpat]))
    bad = draw(st.integers(0, 9)) == 0            # about one list in ten carries an illegal escape
    which = draw(st.integers(0, n - 1)) if bad else -1
    return [draw(gen_pattern_tokens(allow_illegal=(i == which))) for i in range(n)]


def instance(draw, toks):
    """A string the pattern matches (illegal tokens contribute nothing)."""
    out = []
    for t in toks:
        if t == "*":
            out.append(draw(name_text))
        elif t == "?":
            out.append(draw(name_char))
        elif len(t) == 2 and t[0] == "\\":
            if t[1] in "*?\\":
                out.append(t[1])
        elif t == "\\":
            pass
        else:
            out.append(t)
    return "".join(out)


def derived_name(draw, lists):
    """A name close to the language of the patterns in ``lists`` (list of lists of token lists)."""
    flat = [p for l in lists for p in l]
    how = draw(st.integers(0, 11))
    if how == 0:
        return draw(st.text(alphabet=name_char, max_size=7))
    s = instance(draw, flat[draw(st.integers(0, len(flat) - 1))])
    if how == 1:
        return s
    if how >= 10:
        # another spelling of a name that matches (leading ./, trailing /, x/../, case, ...)
        return SPELLINGS[draw(st.integers(0, len(SPELLINGS) - 1))](s)
    if how in (2, 3, 4):
        return s + draw(st.text(alphabet=name_char, min_size=1, max_size=2))
    if how == 5:
        return draw(st.text(alphabet=name_char, min_size=1, max_size=2)) + s
    if how == 6:
        if not s:
            return s
        k = draw(st.integers(0, len(s) - 1))
        return s[:k] + s[k + 1:]
    if how == 7:
        if not s:
            return s
        k = draw(st.integers(0, len(s) - 1))
        return s[:k] + draw(name_char) + s[k + 1:]
    t = instance(draw, flat[draw(st.integers(0, len(flat) - 1))])
    if how == 8:
        return s + t
    return s + t[:draw(st.integers(0, len(t)))]


def join(tl):
    return ["".join(p) for p in tl]


def draw_before(draw, case, lists, often):
    """Now and then: up to three siblings of one of the case's lists, to be converted first."""
    if draw(st.integers(0, 9)) >= often:
        return case
    pl = lists[draw(st.integers(0, len(lists) - 1))]
    sib = siblings(pl) + [list(pl)]
    case["before"] = [sib[i % len(sib)] for i in draw(st.lists(st.integers(0, len(sib) - 1),
                                                                min_size=1, max_size=3))]
    return case


glob_token = st.one_of(legal_token, st.sampled_from(["\n", "\n", " ", "\t", "a", "b", "\r", "\u2028"]))
illegal_glob_token = st.sampled_from(["\\\n", "\\ ", "\\\t", "\\a", "\\\r", "\\b"])


@st.composite
def gen_globs(draw):
    """A list for globs_to_re() itself: patterns may hold newlines and blanks (as literals and,
    illegally, behind a backslash)."""
    n = draw(st.sampled_from([1, 2, 2, 3, 4]))
    bad = draw(st.integers(0, 7)) == 0
    which = draw(st.integers(0, n - 1)) if bad else -1
    tl = []
    for i in range(n):
        toks = draw(st.lists(glob_token, min_size=1, max_size=6))
        if i == which:
            if draw(st.integers(0, 3)) == 0:
                toks = toks + ["\\"]
            else:
                k = draw(st.integers(0, len(toks)))
                toks = toks[:k] + [draw(illegal_glob_token)] + toks[k:]
        tl.append(toks)
    case = {"kind": "globs", "patterns": join(tl)}
    case["names"] = [derived_name(draw, [tl]) for _ in range(draw(st.integers(1, 5)))]
    return draw_before(draw, case, [case["patterns"]], 6)


@st.composite
def gen_para(draw):
    via = draw(st.sampled_from(["create", "assign", "assign", "parse"]))
    tl = draw(gen_list_tokens())
    lists = [tl]
    case = {"kind": "para", "via": via, "patterns": join(tl)}
    if via == "assign":
        if draw(st.integers(0, 7)) == 0:
            prev = tl
        else:
            prev = draw(gen_list_tokens(maxpat=3))
        lists.append(prev)
        case["prev"] = join(prev)
        case["handle"] = draw(st.sampled_from(["own", "own", "deb822", "twin"]))
    if via in ("parse", "assign"):
        case["seps"] = [draw(st.sampled_from(LEADS))] + \
            [draw(st.sampled_from(SEPS)) for _ in range(len(tl) - 1)]
    n = draw(st.integers(1, 5))
    case["names"] = [derived_name(draw, lists) for _ in range(n)]
    if via != "parse" and draw(st.integers(0, 7)) == 0:
        case["patterns"] = draw_white_space(draw, case["patterns"], case["names"])
    if via == "parse" or (via == "assign" and case["handle"] != "own"):
        draw_fieldcase(draw, case)
    if via == "parse":
        draw_strict(draw, case, None)
    draw_before(draw, case, [case["patterns"]] + ([case["prev"]] if via == "assign" else []), 2)
    if via == "parse":
        case = draw_input_form(draw, case)
    return case


def draw_strict(draw, case, paras):
    """One case in four: the strict parameter is given (mostly False), and with it fields are
    left out of some Files paragraphs; sometimes a paragraph with neither Files nor License."""
    if draw(st.integers(0, 3)) != 0:
        return
    case["strict"] = draw(st.sampled_from([False, False, False, True]))
    choice = st.sampled_from([[], ["License"], ["License"], ["Copyright"], ["Copyright", "License"]])
    if paras is None:
        case["omit"] = draw(choice)
        return
    for e in paras:
        if e[0] == "F":
            e.append(draw(choice))
    if draw(st.integers(0, 3)) == 0:
        paras.insert(draw(st.integers(0, len(paras))), ["X", "see upstream"])


def draw_fieldcase(draw, case):
    """One case in four spells the field names it writes in other letter case."""
    if draw(st.integers(0, 3)) == 0:
        case["fieldcase"] = draw(st.lists(st.sampled_from(STYLES + STYLES[1:]), min_size=1, max_size=8))


def draw_white_space(draw, patterns, names):
    """The list with white space put into one pattern (at an end, both ends or inside); the first
    name is added with the same white space around it."""
    pl = list(patterns)
    i = draw(st.integers(0, len(pl) - 1))
    w = draw(st.sampled_from(WS))
    how = draw(st.integers(0, 3))
    p = pl[i]
    if how == 0:
        p = w + p
    elif how == 1:
        p = p + w
    elif how == 2:
        k = draw(st.integers(0, len(p)))
        p = p[:k] + w + p[k:]
    else:
        p = w + p + draw(st.sampled_from(WS))
    pl[i] = p
    if names:
        names.extend([w + names[0], names[0] + w])
    return pl


def draw_input_form(draw, case):
    """How the document text reaches Copyright(...): half of the time as a text file, else as
    text lines or as bytes in some codec, the letters renamed into letters of that codec."""
    if draw(st.booleans()):
        return case
    case["input"] = draw(st.sampled_from(INPUTS[1:]))
    enc = draw(st.sampled_from(sorted(CODECS)))
    if case["input"] != "text-lines":
        case["enc"] = enc
    return translate_case(case, codec_table(enc, draw(st.integers(0, 11))))


@st.composite
def gen_doc(draw):
    via = draw(st.sampled_from(["dump", "text"]))
    nf = draw(st.sampled_from([1, 2, 2, 3, 3, 4]))
    paras, lists = [], []
    for i in range(nf):
        if draw(st.integers(0, 3)) == 0:
            paras.append(["L", draw(st.sampled_from(["GPL-2+", "MIT", "X", "Apache-2.0 or MIT"]))])
        if lists and draw(st.integers(0, 2)) == 0:
            # a broader or equal variant of an earlier paragraph, so that several paragraphs match
            base = lists[draw(st.integers(0, len(lists) - 1))]
            pat = list(base[draw(st.integers(0, len(base) - 1))])
            k = draw(st.integers(0, len(pat)))
            pat = pat[:k] + ["*"]
            tl = [pat] + (draw(gen_list_tokens(maxpat=1))[:1] if draw(st.booleans()) else [])
        else:
            tl = draw(gen_list_tokens(maxpat=3))
            if draw(st.integers(0, 3)) != 0:
                # keep illegal escapes rare inside documents (they turn every query into an error)
                tl = [[t for t in p if not (t[0] == "\\" and t not in ("\\*", "\\?", "\\\\"))] or ["a"]
                      for p in tl]
        lists.append(tl)
        seps = [draw(st.sampled_from(LEADS))] + [draw(st.sampled_from(SEPS)) for _ in range(len(tl) - 1)]
        paras.append(["F", join(tl), seps])
    if draw(st.integers(0, 3)) == 0:
        paras.append(["L", "Z"])
    n = draw(st.integers(1, 5))
    names = [derived_name(draw, lists) for _ in range(n)]
    edits = []
    for _ in range(draw(st.sampled_from([0, 0, 1, 2, 3]))):
        how = draw(st.integers(0, 5))
        if how == 0:
            pl = ["*"]
        elif how in (1, 2):
            pl = join(lists[draw(st.integers(0, len(lists) - 1))])       # another paragraph's list
        else:
            tl = draw(gen_list_tokens(maxpat=2))
            pl = join([[t for t in p if not (t[0] == "\\" and t not in ("\\*", "\\?", "\\\\"))] or ["a"]
                       for p in tl])
        if draw(st.integers(0, 3)) == 0:
            edits.append(["add", pl])
        else:
            edits.append(["files", draw(st.integers(0, 3)), pl])
    case = {"kind": "doc", "via": via, "paras": paras, "names": names}
    if edits:
        case["edits"] = edits
    if draw(st.integers(0, 7)) == 0:
        # white space inside a list that goes through create() or the setter
        if edits and draw(st.booleans()):
            e = edits[draw(st.integers(0, len(edits) - 1))]
            k = 1 if e[0] == "add" else 2
            e[k] = draw_white_space(draw, e[k], names)
        elif via == "dump" and nf >= 2:
            e = [q for q in paras if q[0] == "F"][draw(st.integers(0, nf - 1))]
            e[1] = draw_white_space(draw, e[1], names)
    draw_fieldcase(draw, case)
    if via == "dump" and draw(st.booleans()):
        case["wrap"] = True
        for e in edits:
            if e[0] == "files":
                e.append(draw(st.sampled_from(HANDLES)))
    draw_strict(draw, case, paras)
    draw_before(draw, case, [e[1] for e in paras if e[0] == "F"], 2)
    return draw_input_form(draw, case)


def extra_enums(tier):
    return [
        Enum("second-handle", enum_handles, "one paragraph, 7x6 (old, new) lists x 3 handles x 2 "
             "spellings of the Files text x 15 names"),
        Enum("name-spellings", enum_spellings, "1..2 Files paragraphs over 9 lists x 6 names in "
             "15 spellings (./n /n n/ x/../n ././n // n/. case blanks NFD backslash ../n n+newline)"),
        Enum("encoded-documents", enum_encoded, "7 codecs x 4 input forms x (1..2 Files paragraphs "
             "over 5 lists with non-ASCII letters + 5 single paragraphs) x 8 names"),
        Enum("every-character", enum_chars, "globs_to_re: each of 135 characters (all of ASCII, "
             "NEL, NBSP, e-acute, LS, PS, BOM, an astral one) as a literal and behind a backslash "
             "in 12 lists of 1..2 patterns x 11 names"),
        Enum("sibling-lists", (lambda: enum_siblings(2 if tier == "quick" else 3)),
             "globs_to_re: every list of one pattern of <=4 (thorough 5) characters with a newline "
             "and of two patterns of <=2 (thorough 3) characters over {a * newline} (+64 of three "
             "patterns) converted after all its siblings; 20 two-pattern lists met by a paragraph "
             "(create/parse/assign) and by a document after their siblings were converted"),
        Enum("field-name-case", enum_fieldcase, "3 documents of 2..3 Files paragraphs (+ License "
             "paragraph): each field-name occurrence in lower / upper / swapped case, and all 255 "
             "assignments of 4 styles to Format / Files / Copyright / License, x strict "
             "False/True/default x 4 input forms; incomplete paragraphs under respelt names; single "
             "paragraphs in all 256 spellings; paragraphs over Deb822 objects keyed in 64 spellings"),
        Enum("given-lists-with-white-space", enum_given, "13 white-space strings x 5 patterns x 6 "
             "places (front, end, both, inside twice, alone) x 3 list shapes, handed to create(), "
             "the files setter (own / twin wrapper), a built document's paragraphs and edits, a "
             "parsed document's edits"),
        Enum("incomplete-paragraphs", enum_incomplete, "1..2 Files paragraphs over 3 lists, each "
             "without every non-empty choice from {Copyright, License} somewhere, with License / "
             "field-less bystander paragraphs, x strict=False/True/default x 4 input forms, as "
             "text and built over Deb822 objects; single paragraphs likewise"),
    ]


def sources(tier):
    if tier == "quick":
        return [
            Enum("one-pattern<=3tok", enum_lists(1, 3, 3), "one pattern <=3 tokens x names <=3"),
            Enum("two-patterns<=2tok", enum_lists(2, 2, 3, illegal=E_ILLEGAL2), "two patterns <=2 tokens x names <=3"),
            Enum("small-documents", enum_docs, "1..3 one-pattern Files paragraphs x 15 names"),
        ] + extra_enums(tier) + [
            Hyp("pattern-lists", gen_para(), 600, shards=8),
            Hyp("documents", gen_doc(), 250, shards=8),
            Hyp("direct-conversion", gen_globs(), 300, shards=4),
        ]
    return [
        Enum("one-pattern<=3tok", enum_lists(1, 3, 4), "one pattern <=3 tokens x names <=4"),
        Enum("two-patterns<=2tok", enum_lists(2, 2, 3, illegal=E_ILLEGAL2), "two patterns <=2 tokens x names <=3"),
        Enum("two-patterns<=3tok", enum_lists(2, 3, 3, tokens=E_TOKENS[:5], illegal=E_ILLEGAL2),
             "two patterns <=3 tokens over {a / * ? \\*} x names <=3"),
        Enum("three-patterns<=2tok", enum_lists(3, 2, 3, tokens=["a", "/", "*", "?"], illegal=()),
             "three patterns <=2 tokens over {a / * ?} x names <=3"),
        Enum("small-documents", enum_docs, "1..3 one-pattern Files paragraphs x 15 names"),
    ] + extra_enums(tier) + [
        Hyp("pattern-lists", gen_para(), 6000, shards=16),
        Hyp("documents", gen_doc(), 2500, shards=16),
        Hyp("direct-conversion", gen_globs(), 3000, shards=16),
    ]
