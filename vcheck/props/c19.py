"""C19 - update_file converges to the published content and never corrupts the local file.

case = one run of update_file:

  {"versions": [v0, ..., vn],          n >= 1, each a list of "\\n"-terminated lines (no CR, no lone ".");
                                       an item of the list may also be a run of lines written with a repeat
                                       count, [count, first, width] or [count, first, width, fill]: the lines
                                       "<number>:" + fill character ("x") up to width characters (newline
                                       included), or the bare number where the width leaves no room, for the
                                       numbers first .. first + count - 1 (see expand(); this is how versions
                                       of 8 KiB .. 3 MiB are written); the patch between two versions keeps or
                                       replaces such a run as a whole (script());
                                       consecutive versions may be equal (a no-change step: the file was
                                       published again unchanged; its patch is the empty ed script, served as
                                       a gzip of zero bytes and listed with size 0 and the hash of "")
   "hash": "SHA1" | "SHA256" | "both", which hash family the Index publishes
   "order": 0..3, "extra": bool, "names": 0 | 1      Index layout: field order, ignorable fields + padded
                                                      columns, patch naming scheme
   "ws": [flag, ...]                   Index layout, white space the deb822 format allows (WS_FLAGS): blank /
                                       tab at the end of the History / Patches / Download entry lines, at the
                                       end of a field's first line, tab as continuation indent, tabs between
                                       the columns, an empty line closing the paragraph; the first entry of
                                       the History / Patches / Download field on the line of the field name
                                       (one flag per field), no blank after the colon, no newline after the
                                       Index's last line (whichever line the field order puts there: a
                                       Patches, History, Download entry or the Current line; wins over the
                                       closing empty line), CR LF line ends (route not judged, see ASSUMPTIONS)
   "verbose": bool, "via": 0 | 1 | 2                  how update_file is called (see below)
   "start": ["absent"] | ["v", i] | ["current"] | ["foreign"]        the local file before the call
   "faults": [fault, ...]                                             usually none or one
   "debris": null | {"upto": m, "kill": ["write", k] | ["rename"] | ["fetch", k]}
                                       an earlier update of the same local file was interrupted (below)
   "prior": null | {"repo": "same" | "prefix" | "reversed", "upto": m, "start": "first" | "absent"}}
                                       an earlier update in this process, from the same URL, completed (below)

  call form: "verbose" is update_file's documented third parameter (its only one besides remote and
  local).  via 0 = update_file(remote, local) / update_file(remote, local, verbose=True);
  via 1 = third argument positional, update_file(remote, local, False | True);
  via 2 = through the module's deprecated alias updateFile (keyword form; its DeprecationWarning
  is silenced; a tree without the alias is called as via 0).  Whatever the call prints is captured
  in a StringIO for the duration of the call (sys.stdout is checked to be back afterwards) and is
  not judged: the statement promises the same outcome for every call form and nothing about output.

  fault = ["patch", kind, j]      kind in PATCH_FAULTS, j = patch vj -> vj+1 (modulo n)
        | ["index", kind, x]      kind in INDEX_FAULTS
        | ["write", k]            the k-th write() to a file in the local file's directory fails (ENOSPC)
        | ["open"]                opening a file for writing in that directory fails (EACCES)
        | ["rename"]              os.rename / os.replace onto the local file fails (EXDEV)
        | ["close"]               writes stay buffered and the flush at close fails (ENOSPC): the
                                  failure surfaces only when the written file is closed

  debris: before the call under test, update_file(remote_m, local) - remote_m publishing v0..vm of the
  same history in the same layout, without faults - runs in a forked child process that dies by
  os._exit (no ``finally``, no handler runs: SIGKILL / power loss) in the middle of its k-th write to a
  file in the local directory (half of the data flushed), at the rename onto the local file, or right
  after its k-th download.  Whatever that process left in local/ and tmp/ is the debris the call under
  test starts with (no file name is assumed: the debris is what this tree's code leaves); a kill point
  that is never reached means the earlier run simply completed.  What the statement promises holds with
  debris present exactly as without; "no temporary file remaining" is judged for every file the call
  created, or touched and left (content, inode or mtime differ) - debris it never touched is not its
  file.  The result of one interrupted run is kept (per process, 64 entries) and put back byte for byte
  for the other plans that start from the same (history prefix, layout, local content, kill point).

  prior: before the call under test and in the same process, update_file(remote, other) - the same
  remote URL, another local file (in local-before/), no faults - runs to completion against what the
  repository published then: the same history undamaged ("same": the case's faults then damage it in
  place after that good run), v0..vm only ("prefix": the repository has moved on since), or vn..v0
  ("reversed": other content has since been republished under the same patch and file names); that
  earlier update started at the first version published then (patch route) or without a local file
  (full download).  The repository directory is then rewritten in place as the one of the case, and the
  call under test is judged exactly as without the earlier update: the library may keep nothing from an
  earlier call that outlives a change of the repository, and "the chain of patches is applied" keeps
  meaning that the chain's patches are fetched from the repository, in order.  The earlier update itself
  is not judged here (the plans without it do that).

The repository lives in a per-case tempfile.mkdtemp() directory (repo/, local/, tmp/) that is removed
before check() returns; I/O faults are injected with unittest.mock for the duration of the one
update_file call only (debian.debian_support.open, os.rename, os.replace; urllib.request.urlopen is
wrapped to record which URLs were fetched, urllib.request.urlretrieve to place the "fetch" kill point).  The library has no hooks.

Generation is *fault enumeration*: Hypothesis generates histories (+ Index layout); for every history
``plans()`` enumerates every start state x every fault plan, and each (history, start, faults) triple
is one evaluation of check().  The fixed histories run the complete plan set with verbose False and
with verbose True; a generated history runs the complete plan set at the verbose value drawn with it
and, in addition, every start state without fault at the opposite value.  The debris plans (see
``plans()``) run at the history's own verbose value: 8 (n = 1: 7) per start for a fixed history, 2 per start
for a generated one (every one of them forks a process); so do the plans with an earlier completed
update from the same URL: 6 + n per start (4 + n for n = 1) for a fixed history, 2 for a generated one.

A third, enumerated source ("index-layouts", ``enum_layouts()``) runs three of the fixed histories (n = 1, 2, 3)
through every Index layout flag alone, the newer flags combined, and every pair of a newer flag with any
other flag, in every field order / hash configuration, from every start state without fault and with four
fault plans from the oldest version.

A fourth, enumerated source ("sizes", ``enum_sizes()``) has files, patches and lines around the sizes at which
buffered I/O and block-wise hashing change behaviour - 8 KiB, 64 KiB, 1 MiB: per boundary b eight histories
(``size_histories()``): versions b - 1, b, b + 1 bytes long that differ at the end / at the start / in the middle of
very many short lines / in non-ASCII lines (b lies between the size in characters and in bytes); from 6 bytes to
b + 1 and back to 4; patches exactly b - 1, b, b + 1 bytes long (the file grows to 3 b); one line of b - 1, b, b + 1
bytes; the whole content (b + 1 bytes) replaced by b - 1 other bytes.  Each runs with SHA1 and with SHA256 from
every start state without fault, and from the oldest version with each patch self-consistent but wrong (the wrong
line is the last one of the result), each patch replaced by an equivalent script (it differs from the listed one
at its very end only), last patch replaced, wrong Current hash, first / last write, open, rename, close failing.
"""
import builtins
import contextlib
import errno
import gc
import gzip
import hashlib
import io
import json
import locale
import os
import shutil
import stat
import sys
import tempfile
import urllib.request
import warnings
import zlib
from unittest import mock

from hypothesis import strategies as st

from ..core import Violation, Enum, Custom, jsonable, short
from ..model import c18_eddiff as ed

from debian import debian_support as ds

ID = "C19"
LEVEL = "fault_enumeration"
RULE = ("Hypothesis generates histories v0..vn (n=1..4, 0..7 lines per version from a 15-line pool (incl. lines with FF, VT, GS, NEL, U+2028 inside), "
        "each version derived from the previous one by 1..2 hunks, sometimes (1 step in 8) reverting to an "
        "earlier one, sometimes (1 step in 8, any step incl. the first and the last, also several in a row) "
        "identical to the previous one = a no-change step whose patch is the empty script) x Index layout (SHA1 / SHA256 / both, 4 field orders, ignorable fields, 2 naming "
        "schemes, 0..3 of 12 layout variants the format allows: blank / tab ending the entry lines, blank+tab ending a field's first line, "
        "tab indent, tab between columns, closing empty line, first History / Patches / Download entry on the field's own line (3 flags), "
        "no blank after the colon, last line of the Index without newline, CR LF line ends) x call form (verbose False / True; parameter by keyword, positional, or through the "
        "deprecated alias updateFile); for every history the complete plan set is enumerated (fixed "
        "histories: at both verbose values; generated histories: at the drawn verbose value, plus every "
        "start without fault at the other value): start in {absent, each vi, "
        "current, foreign} x faults in {none; per patch: replaced, replaced by an equivalent script, "
        "self-consistent but wrong, truncated, not gzip, missing; Index: missing, 4 unparseable forms, "
        "wrong Current hash, short History entry, patch not listed; k-th write failing for every k <= "
        "lines of vn; open failing; rename failing; flush at close failing; Index missing/unparseable "
        "combined with a write / rename / close fault}; then start x debris of an earlier update that a forked child "
        "really ran and that was killed (os._exit) {same repository: in the 1st write, at the rename, after the 1st download; "
        "repository one publication earlier (n>=2): in the last write} without fault, and the debris of "
        "the run killed at the rename x {1st write, open, rename, close failing} (fixed histories; a generated history: killed at the rename, "
        "and one publication earlier in the last write - n=1: same repository, 1st write); then start x an earlier update of another local file, "
        "completed in the same process from the same URL, after which the repository directory was rewritten in place: it had published vn..v0 under the same "
        "names (earlier run by patches / by full download), v0..vn-1 (same two), the same history (no fault; then patch j replaced for each j, last patch "
        "wrong) - generated histories: the reversed history by patches, and the same history with the last patch replaced afterwards.  "
        "Enumerated besides (index-layouts): 3 fixed histories (n=1,2,3) x {each of the 12 layout flags alone, the 3 first-entry-inline flags together, "
        "all 6 newer flags with / without CR LF: each x 3 hash configurations x 4 field orders x with/without ignorable fields; every pair "
        "(newer flag, other flag) x 4 field orders at a rotating hash configuration} x {every start without fault; oldest version x "
        "{last patch replaced, first patch wrong, wrong Current hash, rename failing}}.  Enumerated besides (sizes): per boundary b in {8 KiB, 64 KiB, 1 MiB} 8 histories written with repeat counts (versions of b-1, b, b+1 bytes growing at the end, "
        "shrinking at the start, changing amid 1841 / 12758 / 165656 lines of 2..8 bytes, with non-ASCII lines; 6 bytes -> b+1 -> 4 bytes; patches of exactly b-1, b, b+1 bytes; "
        "one line of b-1, b, b+1 bytes; b+1 bytes all replaced) x SHA1 / SHA256 x {every start without fault; oldest version x {each patch wrong, each patch equivalent, "
        "last patch replaced, wrong Current hash, first / last write, open, rename, close failing}}.  Non-trivial = no fault and the local file at v1..vn-1 of a history with n>=2, "
        "or a fault that took effect (the damaged resource was fetched / the write, open, rename "
        "or close was attempted); a debris plan: the earlier run left something and (no fault or the fault took effect); distinct = distinct canonical JSON of the (history incl. layout and call "
        "form, start, faults, debris, prior) tuple")
ASSUMPTIONS = [
    "expected content is vn itself; hashes in the Index come from hashlib, patches from the harness's LCS "
    "differ checked against its own ed model (model/c18_eddiff.py); for a no-change step that differ yields the "
    "empty script, and either of the equal history entries is accepted as the start of the applied chain",
    "fault injection by unittest.mock on debian.debian_support.open, os.rename, os.replace; "
    "a write fault that never fires (the implementation wrote through another channel) expects convergence",
    "transport-level patch faults (truncated, not gzip, missing) and Index defects the statement does not "
    "name accept either outcome: converged, or raised with the local file intact",
    "debris = whatever a child process (os.fork) running the tree's own update_file leaves when it dies by os._exit at "
    "the kill point (half-way through a write, at the rename, after a download); fork() and /dev/shm (or TMPDIR) "
    "semantics of the host; an interrupted run's result is reused byte for byte for plans with the same earlier run; "
    "files of the debris that the call under test leaves untouched (same content, inode, mtime) are not counted "
    "as its temporary files, everything else besides the local file is",
    "the earlier completed update shares the process (module state of the tree under test) and the remote URL with the call "
    "under test; the repository is rewritten in place between them with shutil.rmtree + the same builder; "
    "'chain applied' is observed as: the chain's patch URLs, and not the full file, were fetched by the call",
    "Index white-space variants: what deb822 / APT's tag-file reader accept (trailing blanks are not part of a value, "
    "continuation lines start with blank or tab, columns are separated by any run of blanks and tabs; a field's value may "
    "start on the line of its name and continue on the following lines, the blank after the colon is optional, the last line "
    "of a file need not end with a newline); such an Index is a usable one: the chain must be applied",
    "CR LF line ends are not part of the deb822 grammar: an Index written with them may be treated as usable or as unusable - "
    "the end state (converged, or a detected hash mismatch with the local file intact) is judged, the route (chain or full "
    "download) and the detection of a wrong Current hash are not",
    "the call's output is captured with contextlib.redirect_stdout into a StringIO (so printing cannot fail "
    "on the stream's encoding) and is not judged; verbose is the only parameter of update_file besides "
    "remote and local; the knobs of its helpers (replace_file encoding=, patches_from_ed_script re_cmd=) "
    "cannot be reached through update_file and stay out of this check",
    "file:// URLs through urllib; process locale must be UTF-8 for the non-ASCII line (else those cases are skipped)",
    "versions written with repeat counts are expanded by the harness (expand()); their patches come from the same LCS differ run "
    "over the items (a run is kept or replaced as a whole) and are checked against the harness's ed model like every other patch; "
    "the generated histories and the fixed ones stay below 100 bytes per version - sizes are explored by the 'sizes' source only, "
    "at 8 KiB, 64 KiB and 1 MiB (largest file 3 MiB, largest patch and longest line 1 MiB + 10), and only with the plain Index layout, "
    "without debris and without an earlier update",
    "Hypothesis 6.168 generators; sha1 for distinctness",
]
EXHAUSTIVE = {
    "quick": "for each of the 12 fixed histories (5 of them with no-change steps: first, last, interior, two in a row, only step) x 3 hash configurations x verbose False/True and for every "
             "generated history (at its drawn call form): every start state x every fault plan, every debris plan and every earlier-update plan of plans()",
    "thorough": "for each of the 12 fixed histories (5 of them with no-change steps: first, last, interior, two in a row, only step) x 3 hash configurations x verbose False/True and for every "
                "generated history (at its drawn call form): every start state x every fault plan, every debris plan and every earlier-update plan of plans()",
}
LAYOUTS_DESC = ("index-layouts: for 3 of the fixed histories (n = 1, 2, 3): every Index layout flag alone, the three first-entry-on-the-field-line "
                "flags together, the newer flags together (with and without CR LF) - each x 3 hash configurations x 4 field orders x "
                "with/without ignorable fields - and every pair of a newer flag with any other flag x 4 field orders; each x every "
                "start state without fault + 4 fault plans from the oldest version")
SIZES_DESC = ("sizes: files and patches around 8 KiB, 64 KiB and 1 MiB (versions written with repeat counts; 8 histories per boundary, "
              "see size_histories()) x SHA1 / SHA256 x every start state without fault + (2 per patch + 7) fault plans from the oldest version")
EXHAUSTIVE = {t: d + "; " + LAYOUTS_DESC + "; " + SIZES_DESC for t, d in EXHAUSTIVE.items()}
BUDGET = {"quick": 180, "thorough": 1800}

PATCH_FAULTS = ("replaced", "equivalent", "wrong", "truncated", "notgzip", "missing")
INDEX_FAULTS = ("missing", "broken", "wrong-current", "columns", "unlisted")
N_BROKEN = 6
VIA = ("keyword", "positional", "alias")
# Index layouts the deb822 format allows (APT reads them all alike): blanks / tabs at the end of the
# History / Patches / Download entry lines, at the end of the field's first line, a tab as the
# continuation indent, tabs between the columns, an empty line closing the paragraph; then the newer ones
WS_FLAGS = ("entry-trail-space", "entry-trail-tab", "head-trail", "tab-indent", "tab-columns",
            "final-blank-line",
            # a multi-line field's first entry on the line of the field name (per field), no blank after
            # the colon, the Index's last line not terminated (whichever field the order puts last),
            # CR LF line ends
            "history-first-inline", "patches-first-inline", "download-first-inline", "colon-tight",
            "no-final-newline", "crlf")
WS_FIXED = ([], ["entry-trail-space"], ["tab-indent", "head-trail"], ["entry-trail-tab"],
            ["tab-columns", "final-blank-line"], ["entry-trail-space", "entry-trail-tab", "tab-indent"],
            ["head-trail", "tab-columns"])
PRIOR_REPOS = ("same", "prefix", "reversed")
KILLED, COMPLETED, RAISED = 17, 0, 3        # exit codes of the interrupted earlier run (a child process)
POOL = ["a\n", "b\n", "c\n", "..\n", " .\n", ". \n", "1a\n", "2,3d\n", "\n", "é\n", ".x\n",
        # characters str.splitlines() treats as line boundaries but file iteration does not: one line each
        "x\x0cy\n", "p\u2028q\n", "v\x85w\n", "k\x1dl\x0bm\n"]
FOREIGN_LINE = "local change\n"
WRONG_LINE = "WRONG\n"
NAME = "Packages"
UTF8_LOCALE = locale.getpreferredencoding(False).lower().replace("-", "") == "utf8"
DETECTION_ERRORS = (ValueError, OSError, EOFError, zlib.error)



def _scratch_parent():
    """Memory-backed directory for the per-case mkdtemp() when there is one (metadata operations on
    the disk dominate the run time otherwise); None = tempfile's default."""
    if os.environ.get("TMPDIR"):
        return None
    d = "/dev/shm"
    return d if os.path.isdir(d) and os.access(d, os.W_OK | os.X_OK) else None


SCRATCH = _scratch_parent()
_REAL = dict(urlopen=urllib.request.urlopen, urlretrieve=urllib.request.urlretrieve, rename=os.rename, replace=os.replace, open=builtins.open)


# ------------------------------------------------------------------------------------------
# case plumbing


MAX_BYTES = 5 << 20         # upper bound on one version written with repeat counts


def seg_line(i, width, fill="x"):
    """Line number i of a run: its number, a colon, then the fill character up to ``width`` characters
    including the newline (the bare number where the width leaves no room: 'many short lines')."""
    s = "%d" % i
    return (s if len(s) >= width - 1 else (s + ":").ljust(width - 1, fill)) + "\n"


_RUNS = {}          # run -> its lines (the same run is expanded many times in one case)


def expand(v):
    """The lines of a version.  An item of a version is one line (str) or a run written compactly,
    [count, first, width] / [count, first, width, fill]: the lines seg_line(first + k, width, fill),
    k < count."""
    out = []
    for it in v:
        if isinstance(it, str):
            out.append(it)
        else:
            key = tuple(it)
            if key not in _RUNS:
                if len(_RUNS) >= 24:
                    _RUNS.clear()
                fill = it[3] if len(it) > 3 else "x"
                _RUNS[key] = tuple(seg_line(it[1] + k, it[2], fill) for k in range(it[0]))
            out += _RUNS[key]
    return out


def n_lines(v):
    return sum(1 if isinstance(it, str) else it[0] for it in v)


def _is_int(x, lo, hi):
    return isinstance(x, int) and not isinstance(x, bool) and lo <= x <= hi


def valid_version(v):
    """At most 40 items; an item is a line ("\\n"-terminated, no CR, not a lone ".") or a run
    [count, first, width(, fill)] (fill: one character, not a line boundary of any kind)."""
    if not isinstance(v, list) or len(v) > 40:
        return False
    size = 0
    for it in v:
        if isinstance(it, str):
            if not (it.endswith("\n") and it.count("\n") == 1 and it != ".\n" and "\r" not in it
                    and it != WRONG_LINE):
                return False
            size += len(it)
        elif (isinstance(it, list) and len(it) in (3, 4) and _is_int(it[0], 1, MAX_BYTES)
              and _is_int(it[1], 0, 10 ** 9) and _is_int(it[2], 2, MAX_BYTES)
              and (len(it) == 3 or (isinstance(it[3], str) and len(it[3]) == 1 and it[3] not in "\r\n."
                                    and len((it[3] + "\n").splitlines()) == 1))):
            size += it[0] * max(it[2], 11)
        else:
            return False
    return size <= MAX_BYTES


def script(old, new):
    """The ed script old -> new (two versions, items as in the case) from an LCS over the *items*: a run
    written with a repeat count is kept or replaced as a whole, single lines are compared one by one -
    for versions made of single lines this is the line LCS.  Checked against both line lists."""
    hunks = ed.lcs_hunks(old, new)
    at_old, at_new = [0], [0]
    for v, at in ((old, at_old), (new, at_new)):
        for it in v:
            at.append(at[-1] + (1 if isinstance(it, str) else it[0]))
    return ed.emit_plan(expand(old), expand(new),
                        [(at_old[i1], at_old[i2], at_new[j1], at_new[j2]) for i1, i2, j1, j2 in hunks])


def normalise(case):
    """-> (versions, cfg, start, faults) with every index reduced into range, or None."""
    if not isinstance(case, dict):
        return None
    vs = case.get("versions")
    if not isinstance(vs, list) or len(vs) < 2 or len(vs) > 8 or not all(valid_version(v) for v in vs):
        return None
    n = len(vs) - 1
    cfg = dict(hash=case.get("hash") if case.get("hash") in ("SHA1", "SHA256", "both") else "SHA1",
               order=int(case.get("order") or 0) % 4, extra=bool(case.get("extra")),
               names=int(case.get("names") or 0) % 2,
               verbose=bool(case.get("verbose")), via=int(case.get("via") or 0) % len(VIA),
               ws=[w for w in WS_FLAGS if w in (case.get("ws") or [])])
    deb = case.get("debris")
    if deb:
        kill = deb.get("kill") if isinstance(deb, dict) else None
        if not kill or kill[0] not in ("write", "rename", "fetch"):
            return None
        kill = [kill[0]] if kill[0] == "rename" else [kill[0], max(int(kill[1]) if len(kill) > 1 else 1, 1)]
        cfg["debris"] = dict(kill=kill, upto=1 + (int(deb.get("upto") or n) - 1) % n)
    else:
        cfg["debris"] = None
    pri = case.get("prior")
    if pri:
        if not isinstance(pri, dict) or pri.get("repo") not in PRIOR_REPOS:
            return None
        cfg["prior"] = dict(repo=pri["repo"], start="absent" if pri.get("start") == "absent" else "first",
                            upto=1 + (int(pri.get("upto") or n) - 1) % n)
    else:
        cfg["prior"] = None
    start = case.get("start") or ["absent"]
    if start[0] == "v":
        start = ["v", int(start[1]) % n]
    elif start[0] not in ("absent", "current", "foreign"):
        return None
    faults = []
    for f in case.get("faults") or []:
        if f[0] == "patch" and f[1] in PATCH_FAULTS:
            faults.append(["patch", f[1], int(f[2]) % n])
        elif f[0] == "index" and f[1] in INDEX_FAULTS:
            x = int(f[2]) if len(f) > 2 else 0
            faults.append(["index", f[1], x % (N_BROKEN if f[1] == "broken" else n)])
        elif f[0] == "write":
            faults.append(["write", max(int(f[1]), 1)])
        elif f[0] in ("open", "rename", "close"):
            faults.append([f[0]])
        else:
            return None
    return vs, cfg, start, faults


BOUNDARIES = (8 << 10, 64 << 10, 1 << 20)
NEAR = 64


def size_name(b):
    return "%dKiB" % (b >> 10) if b < 1 << 20 else "%dMiB" % (b >> 20)


def size_class(x):
    """below / just-below (within NEAR bytes) / at / just-above / between the boundaries."""
    for b in BOUNDARIES:
        if x == b:
            return "at-" + size_name(b)
        if b - NEAR <= x < b:
            return "just-below-" + size_name(b)
        if b < x <= b + NEAR:
            return "just-above-" + size_name(b)
    below = [b for b in BOUNDARIES if b < x]
    return "above-" + size_name(below[-1]) if below else "below-" + size_name(BOUNDARIES[0])


def foreign_content(vs):
    return vs[0] + [FOREIGN_LINE]


def plans(hist, both=False):
    """Every (start, faults, verbose, debris) plan for a history -- the enumerated fault space: every
    start x every fault plan at the history's own verbose value; at the opposite value every start x
    every fault plan too if ``both``, else every start without fault; then, at the history's own
    verbose value, every start x every debris plan (an earlier update, killed, precedes the call;
    8 plans (n = 1: 7) if ``both``, else 2) and every start x every plan with an earlier completed update from the
    same URL (6 + n plans if ``both``, else 2)."""
    vs = hist["versions"]
    n = len(vs) - 1
    starts = [["absent"]] + [["v", i] for i in range(n)] + [["current"], ["foreign"]]
    fl = [[]]
    for j in range(n):
        for kind in PATCH_FAULTS:
            fl.append([["patch", kind, j]])
    fl.append([["index", "missing", 0]])
    for x in range(N_BROKEN):
        fl.append([["index", "broken", x]])
    fl.append([["index", "wrong-current", 0]])
    for j in range(n):
        fl.append([["index", "columns", j]])
        fl.append([["index", "unlisted", j]])
    for k in range(1, len(vs[-1]) + 1):
        fl.append([["write", k]])
    fl += [[["open"]], [["rename"]], [["close"]], [["index", "missing", 0], ["close"]],
           [["index", "missing", 0], ["write", 1]], [["index", "missing", 0], ["rename"]],
           [["index", "broken", 0], ["write", max(len(vs[-1]), 1)]], [["index", "broken", 1], ["rename"]]]
    verbose = bool(hist.get("verbose"))
    # debris of an interrupted earlier run: the earlier update ran against the same repository and was
    # killed at its first write, at the rename, or after its first download; or it ran when only
    # v0..vn-1 were published (the debris then holds other, possibly longer content) and was killed at
    # its last write.  With the debris of the run killed at the rename in place, the call under test
    # also meets every kind of I/O fault.  That is the set for ``both`` (the fixed histories); a generated
    # history runs two debris plans per start (each costs a fork): same repository killed at the rename,
    # and the earlier repository killed in the last write (n = 1: same repository, first write)
    last = dict(upto=n - 1, kill=["write", max(len(vs[n - 1]), 1)]) if n >= 2 else dict(upto=n, kill=["write", 1])
    if both:
        dl = [([], dict(upto=n, kill=k)) for k in (["write", 1], ["rename"], ["fetch", 1])]
        dl += [(f, dict(upto=n, kill=["rename"])) for f in ([["write", 1]], [["open"]], [["rename"]], [["close"]])]
        if n >= 2:
            dl.append(([], last))
    else:
        dl = [([], dict(upto=n, kill=["rename"])), ([], last)]
    # a completed earlier update in the same process against the same remote URL (another local file),
    # after which the repository was rewritten in place: it had published the same history and a patch
    # is damaged afterwards; it had published v0..vn-1 and moved on; it had published other content
    # under the same names (the reversed history).  The earlier run took the patch route from the first
    # version, or downloaded the full file
    pl = [([], dict(repo="reversed", start="first", upto=n)),
          ([["patch", "replaced", n - 1]], dict(repo="same", start="first", upto=n))]
    if both:
        pl += [([], dict(repo="reversed", start="absent", upto=n)), ([], dict(repo="same", start="first", upto=n)),
               ([["patch", "wrong", n - 1]], dict(repo="same", start="first", upto=n))]
        pl += [([["patch", "replaced", j]], dict(repo="same", start="first", upto=n)) for j in range(n - 1)]
        if n >= 2:
            pl += [([], dict(repo="prefix", start=st0, upto=n - 1)) for st0 in ("first", "absent")]
    return ([(s, f, verbose, None, None) for f in fl for s in starts] +
            [(s, f, not verbose, None, None) for f in (fl if both else [[]]) for s in starts] +
            [(s, f, verbose, d, None) for f, d in dl for s in starts] +
            [(s, f, verbose, None, q) for f, q in pl for s in starts])


def plan_class(start, faults, verbose, debris=None, prior=None):
    return (start[0], tuple(tuple(f[:2]) if f[0] in ("patch", "index") else (f[0],) for f in faults),
            verbose, debris["kill"][0] if debris else None, (prior["repo"], prior["start"]) if prior else None)


# ------------------------------------------------------------------------------------------
# repository builder


def _hexdigest(family, data):
    return (hashlib.sha1 if family == "SHA1" else hashlib.sha256)(data).hexdigest()


def _gz(data):
    return gzip.compress(data, compresslevel=1, mtime=0)


def patch_name(cfg, j):
    return "%s.%d" % (NAME, j + 1) if cfg["names"] == 0 else "2024-01-%02d-0000.00" % (j + 1)


def build_repository(root, vs, cfg, faults, sub="repo"):
    """Write repo/ under root; -> dict(remote=url prefix, urls of every resource).  ``vs``: the versions
    as in the case (items: lines and runs)."""
    n = len(vs) - 1
    items, vs = vs, [expand(v) for v in vs]
    repo = os.path.join(root, sub)
    pdir = os.path.join(repo, NAME + ".diff")
    os.makedirs(pdir)
    pf = {f[2]: f[1] for f in faults if f[0] == "patch"}
    xf = {f[1]: f[2] for f in faults if f[0] == "index"}
    enc = lambda lines: "".join(lines).encode("utf-8")

    with open(os.path.join(repo, NAME + ".gz"), "wb") as f:
        f.write(_gz(enc(vs[-1])))

    listed = []     # (patch bytes as the Index describes them)
    for j in range(n):
        kind = pf.get(j)
        good = enc(script(items[j], items[j + 1] + [WRONG_LINE]) if kind == "wrong" else script(items[j], items[j + 1]))
        served = good
        if kind == "replaced":
            served = b"1a\ngarbled\n.\n" if good != b"1a\ngarbled\n.\n" else b"0a\ngarbled\n.\n"
        elif kind == "equivalent":
            served = good + b"0a\n.\n"
        gzbytes = _gz(served)
        if kind == "truncated":
            gzbytes = gzbytes[:max(len(gzbytes) // 2, 11)]
        elif kind == "notgzip":
            gzbytes = served
        listed.append(good)
        if kind != "missing":
            with open(os.path.join(pdir, patch_name(cfg, j) + ".gz"), "wb") as f:
                f.write(gzbytes)

    families = ["SHA1", "SHA256"] if cfg["hash"] == "both" else [cfg["hash"]]
    if cfg["order"] & 1:
        families.reverse()
    pad = "%9d" if cfg["extra"] else "%d"
    ws = set(cfg.get("ws") or ())
    indent = "\t" if "tab-indent" in ws else " "
    sep = "\t" if "tab-columns" in ws else " "
    trail = (" " if "entry-trail-space" in ws else "") + ("\t" if "entry-trail-tab" in ws else "")
    htrail = " \t" if "head-trail" in ws else ""
    colon = ":" if "colon-tight" in ws else ": "

    def table(fam, name, rows):
        """A multi-line field: its entries (column tuples) one per line after the field name, or - layout
        '<name>-first-inline' - the first of them on the line of the field name itself."""
        rows = [sep.join(cols) + trail for cols in rows]
        if name.lower() + "-first-inline" in ws and rows:
            head, rows = "%s-%s%s%s\n" % (fam, name, colon, rows[0]), rows[1:]
        else:
            head = "%s-%s:%s\n" % (fam, name, htrail)
        return head + "".join(indent + r + "\n" for r in rows)

    out = []
    for fam in families:
        cur = enc(vs[-1] + [WRONG_LINE]) if "wrong-current" in xf else enc(vs[-1])
        current = "%s-Current%s%s%s%s%s\n" % (fam, colon, _hexdigest(fam, cur), sep, pad % len(enc(vs[-1])), htrail)
        hist = table(fam, "History", [
            (_hexdigest(fam, enc(vs[j])), patch_name(cfg, j)) if xf.get("columns") == j else
            (_hexdigest(fam, enc(vs[j])), pad % len(enc(vs[j])), patch_name(cfg, j)) for j in range(n)])
        pats = table(fam, "Patches", [(_hexdigest(fam, listed[j]), pad % len(listed[j]), patch_name(cfg, j))
                                      for j in range(n) if xf.get("unlisted") != j])
        if cfg["extra"]:
            pats += table(fam, "Download", [(_hexdigest(fam, _gz(listed[j])), pad % len(_gz(listed[j])),
                                             patch_name(cfg, j) + ".gz") for j in range(n)])
        out += [[current, hist, pats], [pats, hist, current], [hist, current, pats],
                [current, pats, hist]][cfg["order"]]
    if cfg["extra"]:
        out.insert(1, "X-Patch-Precedence: merged\n")
        # the ignorable two-line field ends the paragraph; where the Index lacks its final newline it
        # opens the paragraph instead, so that the unterminated last line is one of the pdiff fields'
        out.insert(0 if "no-final-newline" in ws else len(out), "X-Unused-Comment: nothing to see,\n here\n")
    if "final-blank-line" in ws and "no-final-newline" not in ws:
        out.append("\n")
    text = "".join(out)
    if "broken" in xf:
        text = ["this line is not a field\n" + text,
                "\n" + text,
                out[0] + "SHA1-Oops no colon\n" + "".join(out[1:]),
                " continuation without a field\n" + text,
                "",                      # fetched successfully, zero bytes long
                "\n\n"][xf["broken"]]
    if "no-final-newline" in ws and text.endswith("\n"):
        text = text[:-1]
    if "crlf" in ws:
        text = text.replace("\n", "\r\n")
    if "missing" not in xf:
        with open(os.path.join(pdir, "Index"), "wb") as f:
            f.write(text.encode("utf-8"))
    remote = "file://" + os.path.join(repo, NAME)
    return dict(remote=remote, full=remote + ".gz", index=remote + ".diff/Index",
                patches=[remote + ".diff/" + patch_name(cfg, j) + ".gz" for j in range(n)])


# ------------------------------------------------------------------------------------------
# fault injection (alive only inside run_update)


class FailingWriter(object):
    """File proxy whose write number ``k`` (counted over all files of the directory) fails half-way."""

    def __init__(self, f, st_):
        self._f, self._st = f, st_

    def write(self, data):
        st_ = self._st
        if st_.get("fail_close"):
            # "close" fault: the data stays in the buffer and the failure (disk full, quota, file
            # size limit) only surfaces when the file is flushed at close
            if getattr(self, "_pending", None) is None:
                self._pending = []
            self._pending.append(data)
            return len(data)
        st_["writes"] += 1
        if st_["writes"] == st_.get("kill_write"):
            self._f.write(data[:len(data) // 2])
            self._f.flush()
            _die(st_)
        if st_["writes"] == st_["fail_write"]:
            st_["fired"].add("write")
            self._f.write(data[:len(data) // 2])
            self._f.flush()
            raise OSError(errno.ENOSPC, "No space left on device (injected)")
        return self._f.write(data)

    def writelines(self, lines):
        for l in lines:
            self.write(l)

    def __enter__(self):
        self._f.__enter__()
        return self

    def _fail_at_close(self):
        pend = getattr(self, "_pending", None)
        pend = pend[0][:0].join(pend) if pend else None
        self._pending = None
        self._st["fired"].add("close")
        try:
            if pend:
                self._f.write(pend[:len(pend) // 2])
        finally:
            self._f.close()
        raise OSError(errno.ENOSPC, "No space left on device (injected at close)")

    def close(self):
        if self._st.get("fail_close") and not self._f.closed:
            self._fail_at_close()
        return self._f.close()

    def __exit__(self, *a):
        if self._st.get("fail_close") and not self._f.closed:
            self._fail_at_close()
        return self._f.__exit__(*a)

    def __iter__(self):
        return iter(self._f)

    def __getattr__(self, name):
        return getattr(self._f, name)


def _in_dir(name, directory):
    try:
        p = os.fspath(name)
    except TypeError:
        return False
    if isinstance(p, bytes):
        p = os.fsdecode(p)
    return os.path.dirname(os.path.abspath(p)) == directory


def _die(st_):
    """The process running the earlier update is killed here (SIGKILL, power loss): no handler, no
    ``finally`` runs.  Only ever reached in the child forked by interrupted_update()."""
    if os.getpid() != st_.get("child"):
        raise RuntimeError("C19 harness: kill point reached outside the child process")
    os._exit(KILLED)


def call_update(remote, local, verbose, via):
    """The one call under test, in the call form of the case."""
    alias = getattr(ds, "updateFile", None)
    if VIA[via] == "alias" and alias is not None:
        with warnings.catch_warnings():
            warnings.simplefilter("ignore", DeprecationWarning)
            return alias(remote, local, verbose=True) if verbose else alias(remote, local)
    if VIA[via] == "positional":
        return ds.update_file(remote, local, verbose)
    return ds.update_file(remote, local, verbose=True) if verbose else ds.update_file(remote, local)


def run_update(remote, local, faults, st_, verbose=False, via=0, kill=None):
    """update_file(remote, local[, verbose]) with the I/O faults of the plan; every mock ends with the
    call, and so does the capture of what it prints (st_["printed"]).  ``kill`` (child process only):
    the point at which the process dies."""
    localdir = os.path.dirname(local)
    st_.update(writes=0, fired=set(), urls=[], fail_write=None, fail_open=False, fail_rename=False,
               fail_close=False, printed="", kill_write=None, kill_rename=False, kill_fetch=None, fetches=0)
    if kill:
        st_["kill_" + kill[0]] = True if kill[0] == "rename" else kill[1]
    for f in faults:
        if f[0] == "close":
            st_["fail_close"] = True
        elif f[0] == "write":
            st_["fail_write"] = f[1]
        elif f[0] == "open":
            st_["fail_open"] = True
        elif f[0] == "rename":
            st_["fail_rename"] = True

    def urlopen(url, *a, **kw):
        st_["urls"].append(url if isinstance(url, str) else getattr(url, "full_url", repr(url)))
        return _REAL["urlopen"](url, *a, **kw)

    def fake_open(name, mode="r", *a, **kw):
        writing = isinstance(mode, str) and any(ch in mode for ch in "wax+")
        if writing and _in_dir(name, localdir):
            if st_["fail_open"]:
                st_["fired"].add("open")
                raise OSError(errno.EACCES, "Permission denied (injected)", os.fspath(name))
            return FailingWriter(_REAL["open"](name, mode, *a, **kw), st_)
        return _REAL["open"](name, mode, *a, **kw)

    def urlretrieve(url, *a, **kw):
        r = _REAL["urlretrieve"](url, *a, **kw)
        st_["fetches"] += 1
        if st_["fetches"] == st_["kill_fetch"]:
            _die(st_)        # the download is on disk, nothing has been done with it yet
        return r

    def mover(real):
        def move(src, dst, *a, **kw):
            if st_["kill_rename"] and os.path.abspath(os.fspath(dst)) == local:
                _die(st_)
            if st_["fail_rename"] and _in_dir(dst, localdir) and os.path.abspath(os.fspath(dst)) == local:
                st_["fired"].add("rename")
                raise OSError(errno.EXDEV, "Invalid cross-device link (injected)")
            return real(src, dst, *a, **kw)
        return move

    old_tmp = tempfile.tempdir
    tempfile.tempdir = os.path.join(os.path.dirname(localdir), "tmp")
    old_stdout, sink = sys.stdout, io.StringIO()
    try:
        with mock.patch.object(urllib.request, "urlopen", urlopen), \
                mock.patch.object(urllib.request, "urlretrieve", urlretrieve), \
                mock.patch.object(ds, "open", fake_open, create=True), \
                mock.patch.object(os, "rename", mover(_REAL["rename"])), \
                mock.patch.object(os, "replace", mover(_REAL["replace"])), \
                contextlib.redirect_stdout(sink):
            return call_update(remote, local, verbose, via)
    finally:
        tempfile.tempdir = old_tmp
        st_["printed"] = sink.getvalue()
        if sys.stdout is not old_stdout:
            sys.stdout = old_stdout
            raise RuntimeError("C19 harness: sys.stdout was not restored after the case")
        if ("open" in vars(ds) or urllib.request.urlopen is not _REAL["urlopen"]
                or urllib.request.urlretrieve is not _REAL["urlretrieve"]
                or os.rename is not _REAL["rename"] or os.replace is not _REAL["replace"]
                or builtins.open is not _REAL["open"]):
            raise RuntimeError("C19 harness: a mock outlived its case")


_EARLIER = {}       # (history prefix, layout, local content, kill point) -> what the killed run left


def interrupted_update(remote, local, kill):
    """An earlier update_file(remote, local) in a forked child that dies (os._exit, so that no
    ``finally`` and no handler runs) at the kill point -> KILLED | COMPLETED (the kill point was never
    reached: the earlier run simply finished) | RAISED.  Whatever it leaves on disk is the debris."""
    sys.stdout.flush()
    sys.stderr.flush()
    pid = os.fork()
    if pid == 0:
        code = RAISED
        try:
            gc.disable()        # a collection in the short-lived child would only copy pages
            run_update(remote, local, [], {"child": os.getpid()}, kill=kill)
            code = COMPLETED
        except BaseException:
            pass
        finally:
            os._exit(code)
    status = os.waitstatus_to_exitcode(os.waitpid(pid, 0)[1])
    if status not in (KILLED, COMPLETED, RAISED):
        raise RuntimeError("C19 harness: the interrupted earlier run ended with status %r" % status)
    return status


def snapshot(dirs, local):
    """{path: (content, inode, mtime)} of everything in dirs except the local file."""
    snap = {}
    for d in dirs:
        for nm in sorted(os.listdir(d)):
            p = os.path.join(d, nm)
            if p == local:
                continue
            s = os.lstat(p)
            data = None
            if stat.S_ISREG(s.st_mode):
                with open(p, "rb") as f:
                    data = f.read()
            snap[p] = (data, s.st_ino, s.st_mtime_ns)
    return snap


# ------------------------------------------------------------------------------------------
# oracle


def fault_name(f):
    return "%s-%s" % (f[0], f[1]) if f[0] in ("patch", "index") else f[0]


def check(case):
    norm = normalise(case)
    if norm is None:
        return (False, ("invalid-case-skipped",))
    items, cfg, start, faults = norm
    non_ascii = not all(t.isascii() for v in items for it in v for t in ([it] if isinstance(it, str) else it[3:]))
    if not UTF8_LOCALE and non_ascii:
        return (False, ("skipped-non-utf8-locale",))
    vs = [expand(v) for v in items]
    n = len(vs) - 1
    target = vs[-1]
    enc = lambda lines: "".join(lines).encode("utf-8")
    content = {"absent": None, "current": target, "foreign": foreign_content(vs)}.get(start[0])
    if start[0] == "v":
        content = vs[start[1]]
    deb, prior = cfg["debris"], cfg["prior"]
    vs0 = {"same": items, "prefix": items[:prior["upto"] + 1], "reversed": items[::-1]}[prior["repo"]] if prior else []
    # the harness's own patches must be right (ModelError -> exit 2, never a violation)
    patch_sizes = []
    for hist in (items, vs0):
        for j in range(len(hist) - 1):
            sc = script(hist[j], hist[j + 1])
            if ed.apply_script(expand(hist[j]), sc) != expand(hist[j + 1]):
                raise ed.ModelError("patch %d of the history is wrong" % j)
            if hist is items:
                patch_sizes.append(len(enc(sc)))

    root = tempfile.mkdtemp(prefix="vcheck-c19-", dir=SCRATCH)
    try:
        localdir = os.path.join(root, "local")
        tmpdir = os.path.join(root, "tmp")
        os.makedirs(localdir)
        os.makedirs(tmpdir)
        prior_outcome, prior_urls = None, []
        if prior:
            # a completed update of another local file, in this process, from the same remote URL; then
            # the repository is rewritten in place (below) as the one the call under test meets
            res0 = build_repository(root, vs0, cfg, [])
            os.makedirs(os.path.join(root, "local-before"))
            local0 = os.path.join(root, "local-before", NAME)
            if prior["start"] == "first":
                with open(local0, "wb") as f:
                    f.write(enc(expand(vs0[0])))
            st0 = {}
            try:
                run_update(res0["remote"], local0, [], st0)
                prior_outcome = "completed"
            except RuntimeError as e:
                if "harness" in str(e):
                    raise
                prior_outcome = "raised"
            except Exception:       # not the call under test: judged by the plans without an earlier update
                prior_outcome = "raised"
            prior_urls = [u for u in st0["urls"] if u in res0["patches"] or u == res0["full"]]
            shutil.rmtree(os.path.join(root, "repo"))
        res = build_repository(root, items, cfg, faults)
        local = os.path.join(localdir, NAME)
        if content is not None:
            with open(local, "wb") as f:
                f.write(enc(content))
        debris, earlier = {}, None
        if deb:
            # an earlier update of the same local file, against the repository as it was when
            # v0..v<upto> were published (without faults), killed at the kill point
            key = json.dumps([items[:deb["upto"] + 1], cfg["hash"], cfg["order"], cfg["extra"], cfg["names"],
                              cfg["ws"], content if content is None or len(content) <= 40 else
                              hashlib.sha1(enc(content)).hexdigest(), deb["kill"]])
            if key in _EARLIER:
                # the same earlier run was interrupted for another plan already: put back what it left
                earlier, local_then, files = _EARLIER[key]
                for rel, data in [(os.path.relpath(local, root), local_then)] + sorted(files.items()):
                    if data is None:
                        if os.path.exists(os.path.join(root, rel)):
                            os.unlink(os.path.join(root, rel))
                    else:
                        with open(os.path.join(root, rel), "wb") as f:
                            f.write(data)
            else:
                then = res if deb["upto"] == n and not faults else build_repository(
                    root, items[:deb["upto"] + 1], cfg, [], sub="repo-then")
                earlier = interrupted_update(then["remote"], local, deb["kill"])
                found = snapshot((localdir, tmpdir), local)
                if all(v[0] is not None for v in found.values()):
                    local_then = None
                    if os.path.exists(local):
                        with open(local, "rb") as f:
                            local_then = f.read()
                    if len(_EARLIER) >= 64:
                        _EARLIER.clear()
                    _EARLIER[key] = (earlier, local_then,
                                     {os.path.relpath(p, root): v[0] for p, v in found.items()})
        if deb or prior:
            debris = snapshot((localdir, tmpdir), local)
        pre = None      # the local file as the call under test finds it
        if os.path.exists(local):
            with open(local, "rb") as f:
                pre = f.read()
        st_ = {}
        exc = ret = None
        try:
            ret = run_update(res["remote"], local, faults, st_, cfg["verbose"], cfg["via"])
        except RuntimeError as e:
            if "harness" in str(e):
                raise
            exc = e
        except Exception as e:  # judged below: re-raised unless the plan allows an error here
            exc = e
        # observe
        after = None
        if os.path.exists(local):
            with open(local, "rb") as f:
                after = f.read()
        # everything besides the local file that the call created, or touched and left behind;
        # debris the call did not touch is not its temporary file
        left = sorted(p for p, v in snapshot((localdir, tmpdir), local).items() if debris.get(p) != v)
        new_left = local + ".new" in left
        strays = [os.path.relpath(p, root) for p in left if p != local + ".new"]
        debris_names = sorted(os.path.relpath(p, root) for p in debris)
        debris_gone = [os.path.relpath(p, root) for p in sorted(debris) if not os.path.lexists(p)]
    finally:
        shutil.rmtree(root, ignore_errors=True)
        if os.path.exists(root):
            raise RuntimeError("C19 harness: could not remove %s" % root)

    in_hist = [j for j in range(n) if enc(vs[j]) == pre]
    is_cur = enc(target) == pre
    urls, fired = st_["urls"], set(st_["fired"])
    for f in faults:
        if f[0] == "patch" and res["patches"][f[2]] in urls:
            fired.add(fault_name(f))
        if f[0] == "index" and res["index"] in urls:
            fired.add(fault_name(f))
    # what the statement demands for this plan
    must_raise, either = [], []
    for f in faults:
        nm = fault_name(f)
        if f[0] in ("write", "open", "rename", "close"):
            if f[0] in fired:
                must_raise.append(nm)
        elif f[0] == "patch" and nm in fired:
            (must_raise if f[1] in ("replaced", "equivalent", "wrong") else either).append(nm)
        elif f[0] == "index" and nm in fired:
            if f[1] == "wrong-current":
                (must_raise if in_hist and not is_cur and "crlf" not in cfg["ws"] else either).append(nm)
            elif f[1] in ("columns", "unlisted"):
                either.append(nm)
    what = "start=%s faults=%s hash=%s n=%d%s%s%s" % (
        start, faults, cfg["hash"], n,
        " verbose=%s via=%s" % (cfg["verbose"], VIA[cfg["via"]]) if cfg["verbose"] or cfg["via"] else "",
        " index-layout=%s" % "+".join(cfg["ws"]) if cfg["ws"] else "",
        " after an earlier update (v0..v%d published) %s, leaving %s" % (
            deb["upto"], {KILLED: "killed at %s" % deb["kill"], COMPLETED: "that completed",
                          RAISED: "that raised"}[earlier], debris_names or "nothing") if deb else "") + (
        " after an update of another local file (%s) in this process from the same URL, which then published %s "
        "(that update %s and fetched %s)" % (
            "at the first version" if prior["start"] == "first" else "absent",
            {"same": "this history, undamaged", "prefix": "v0..v%d only" % prior["upto"],
             "reversed": "vn..v0 under the same patch names"}[prior["repo"]],
            prior_outcome, [u.rsplit("/", 1)[-1] for u in prior_urls]) if prior else "")

    # 1. whatever happened: no temporary file may remain
    if new_left:
        raise Violation("new-file-left", "%s: %s.new exists after %s" % (
            what, NAME, "the error %r" % exc if exc else "a successful return"))
    if strays:
        raise Violation("tempfile-left", "%s: left behind %s" % (what, strays))

    if exc is not None:
        # 2. an error never corrupts the local file
        if after != pre:
            raise Violation("local-file-corrupted", "%s: after %s: %s the local file is %s, it was %s" % (
                what, type(exc).__name__, short(str(exc), 80), short(after, 100), short(pre, 100)))
        if must_raise:
            if not isinstance(exc, DETECTION_ERRORS):
                raise exc
        elif not either:
            raise exc       # an error where the statement promises convergence
        outcome = "raised-intact"
    else:
        # 3. a normal return means: converged
        want = "".join(target).encode("utf-8")
        if must_raise:
            raise Violation("undetected:" + must_raise[0], "%s: returned normally; local file %s" % (
                what, "holds the published content" if after == want else short(after, 100)))
        if after != want:
            raise Violation("wrong-local-content" if after != pre else "local-file-not-updated",
                            "%s: local file is %s, published %s" % (what, short(after, 100), short(want, 100)))
        if ret != target:
            raise Violation("wrong-return-value", "%s: returned %s, published %s" % (
                what, short(ret, 100), short(target, 100)))
        got_patches = [u for u in urls if u in res["patches"]]
        outcome = "converged-by-patches" if got_patches else (
            "converged-by-full-download" if res["full"] in urls else "converged-nothing-to-do")
        # 4. the chain is used when the local content is in the history and the Index is sound
        # (CR LF line ends are outside the deb822 grammar: such an Index may count as unusable, the
        # statement then promises the same end state by a full download)
        if in_hist and not is_cur and not any(f[0] == "index" for f in faults) and "crlf" not in cfg["ws"]:
            chains = [res["patches"][j:] for j in in_hist]
            if res["full"] in urls or got_patches not in chains:
                raise Violation("chain-not-applied", "%s: fetched %s" % (
                    what, [u.rsplit("/", 1)[-1] for u in urls]))

    labels = ["start:" + (start[0] if start[0] != "v" else
                          ("v-first" if start[1] == 0 else "v-interior")),
              "hash:" + cfg["hash"], "n:%d" % n, "order:%d" % cfg["order"], "outcome:" + outcome,
              "expect:" + ("raise" if must_raise else "either" if either else "converge"),
              "verbose:" + ("on" if cfg["verbose"] else "off"), "call:" + VIA[cfg["via"]],
              "output:" + ("printed" if st_.get("printed") else "silent")]
    for f in faults:
        labels.append("fault:" + fault_name(f))
        labels.append("fault-took-effect" if (fault_name(f) in fired or f[0] in fired) else "fault-not-reached")
    if not faults:
        labels.append("fault:none")
    if len(faults) > 1:
        labels.append("two-faults")
    if cfg["extra"]:
        labels.append("index-with-ignorable-fields")
    labels += ["index-layout:" + w for w in cfg["ws"]] or ["index-layout:plain"]
    if deb:
        labels.append("earlier-run:" + {KILLED: "killed-at-" + deb["kill"][0], COMPLETED: "completed",
                                        RAISED: "raised"}[earlier])
        labels.append("earlier-run-repository:" + ("same" if deb["upto"] == n else "one-publication-before"))
        if not debris:
            labels.append("debris:none")
        for d in debris_names:
            labels.append("debris:" + ("local-dir" if d.startswith("local") else "tmp-dir"))
        if debris_gone:
            labels.append("debris-gone-after-the-call")
        elif debris:
            labels.append("debris-left-untouched")
    if len(in_hist) > 1 or (in_hist and is_cur):
        labels.append("local-content-twice-in-history")
    same = [j for j in range(n) if vs[j] == vs[j + 1]]
    if same:
        # a no-change step: vj+1 == vj, its pdiff is the empty ed script (size 0, hash of "")
        labels.append("no-change-step")
        labels += ["no-change-step:" + w for w, hit in (("first", 0 in same), ("last", n - 1 in same),
                                                        ("interior", any(0 < j < n - 1 for j in same)),
                                                        ("two-in-a-row", any(j + 1 in same for j in same))) if hit]
        if exc is None and any(res["patches"][j] in got_patches for j in same):
            labels.append("empty-patch-applied")
    if not target:
        labels.append("published-file-empty")
    if pre == b"":
        labels.append("local-file-empty")
    if non_ascii:
        labels.append("non-ascii-line")
    sizes = dict(published=len(enc(target)), local=len(pre or b""), patch=max(patch_sizes),
                 line=max([0] + [len(it.encode("utf-8")) if isinstance(it, str) else
                                 max(run_bytes([1, it[1]] + it[2:]), run_bytes([1, it[1] + it[0] - 1] + it[2:]))
                                 for v in items for it in v]))
    if max(sizes.values()) >= BOUNDARIES[0] - NEAR:
        # sizes around the block sizes of buffered I/O and chunked hashing: the published file, the local
        # file as the call found it, the largest patch of the history, the longest line
        labels += ["size:%s:%s" % (w, size_class(x)) for w, x in sorted(sizes.items())]
        if n_lines(items[-1]) >= 1000:
            labels.append("size:published:%s-lines" % ("100000+" if n_lines(items[-1]) >= 100000 else "1000+"))
        if exc is None and got_patches:
            lo, hi = min(len(pre or b""), len(enc(target))), max(len(pre or b""), len(enc(target)))
            labels += ["size:patched-across:" + size_name(b) for b in BOUNDARIES if lo <= b <= hi and lo != hi]
    if len(got_patches if exc is None else []) >= 2:
        labels.append("chain>=2")
    effective = any(fault_name(f) in fired or f[0] in fired for f in faults)
    nontrivial = effective or (not faults and n >= 2 and start[0] == "v" and start[1] >= 1)
    if deb:
        nontrivial = bool(debris) and (effective or not faults)
    if prior:
        labels = sorted(set(labels) | {"earlier-update-same-url:" + prior["repo"],
                                       "earlier-update-same-url:local-" + prior["start"],
                                       "earlier-update-same-url:" + prior_outcome} |
                        ({"earlier-update-same-url:took-the-patch-route"}
                         if any(u in res0["patches"] for u in prior_urls) else set()))
        nontrivial = prior_outcome == "completed" and bool(prior_urls) and (effective or not faults)
        return (nontrivial, labels)
    return (nontrivial, sorted(set(labels)))


# ------------------------------------------------------------------------------------------
# generators

line = st.one_of(st.sampled_from(["a\n", "b\n", "c\n"]), st.sampled_from(POOL))


@st.composite
def gen_history(draw):
    n = draw(st.sampled_from([1, 2, 2, 3, 3, 4]))
    v = draw(st.lists(line, min_size=draw(st.sampled_from([0, 1, 1, 2])), max_size=6))
    vs = [v]
    for _ in range(n):
        prev = vs[-1]
        kind = draw(st.integers(0, 7))
        if kind == 0 and len(vs) >= 2 and vs[-2] != prev:
            vs.append(list(vs[-2]))      # revert: the same content twice in the history
            continue
        if kind == 1:
            vs.append(list(prev))        # no-change step (any step, first and last included): empty patch
            continue
        new = list(prev)
        limit = len(prev)
        for _h in range(draw(st.sampled_from([1, 1, 2]))):
            if limit < 0:
                break
            pos = draw(st.integers(0, limit))
            ndel = min(draw(st.sampled_from([0, 1, 1, 2, 7])), limit - pos)
            ins = draw(st.lists(line, max_size=2))
            new[pos:pos + ndel] = ins
            limit = pos - 1
        new = new[:7]
        if new == prev:
            new = (prev + [draw(line)]) if len(prev) < 7 else prev[:-1]
        vs.append(new)
    return {"versions": vs, "hash": draw(st.sampled_from(["SHA1", "SHA256", "SHA1", "SHA256", "both"])),
            "order": draw(st.integers(0, 3)), "extra": draw(st.booleans()), "names": draw(st.integers(0, 1)),
            "verbose": draw(st.booleans()), "via": draw(st.sampled_from([0, 0, 1, 2])),
            "ws": draw(st.lists(st.sampled_from(WS_FLAGS), unique=True, max_size=3))}


FIXED = [
    [["a\n"], ["a\n", "b\n"]],
    [["a\n", "b\n", "c\n"], ["a\n", "c\n"], ["a\n", "c\n", "b\n", "é\n"]],
    [[], ["a\n"], ["b\n", "a\n"], ["b\n"]],
    [["a\n", "b\n"], ["b\n"], ["a\n", "b\n"], ["a\n", "b\n", "c\n"]],
    [["1a\n", "..\n", " .\n"], ["1a\n", ". \n", " .\n", "\n"], []],
    [["a\n", "b\n", "c\n", "a\n", "b\n", "c\n"], ["a\n", "c\n", "a\n", "x\n", "b\n", "c\n"],
     ["x\n", "a\n", "c\n", "a\n", "x\n", "b\n"], ["x\n", "a\n", "c\n", "a\n", "x\n", "b\n", "2,3d\n"],
     ["a\n", "c\n", "a\n", "x\n", "b\n", "2,3d\n"]],
    [["b\n"], ["a\n"]],
    # no-change steps (the file was published again unchanged: vj+1 == vj, the patch is the empty script):
    # at the first step, at the last step, in the middle, twice in a row, and as the only step
    [["a\n", "b\n"], ["a\n", "b\n"], ["a\n", "c\n", "b\n"]],
    [["a\n", "b\n"], ["b\n"], ["b\n"]],
    [["c\n"], ["c\n", "..\n"], ["c\n", "..\n"], ["1a\n", "c\n", "..\n"], ["1a\n", "c\n"]],
    [[], [], [], ["é\n", "a\n"], ["é\n", "a\n"]],
    [["a\n"], ["a\n"]],
]


def enum_fixed():
    k = 0
    for vs in FIXED:
        for h in ("SHA1", "SHA256", "both"):
            k += 1
            hist = {"versions": vs, "hash": h, "order": k % 4, "extra": bool(k & 1), "names": (k >> 1) & 1,
                    "verbose": False, "via": (k // 2) % len(VIA), "ws": list(WS_FIXED[k % len(WS_FIXED)])}
            for start, faults, verbose, debris, prior in plans(hist, both=True):
                yield dict(hist, start=start, faults=faults, verbose=verbose, debris=debris, prior=prior)


WS_NEW = WS_FLAGS[6:]
LAYOUT_HISTORIES = (0, 1, 3)        # of FIXED: n = 1 (a one-entry table), n = 2 (non-ASCII), n = 3 (a content twice)


def layouts():
    """Index layouts of the 'index-layouts' source: every flag alone, the three first-entry-inline flags
    together, every pair of a newer flag (WS_NEW) with any other flag, all the newer flags together."""
    yield from ([w] for w in WS_FLAGS)
    yield [w for w in WS_NEW if w.endswith("-first-inline")]
    yield [w for w in WS_NEW if w != "crlf"]
    yield list(WS_NEW)
    for i, a in enumerate(WS_FLAGS):
        for b in WS_FLAGS[i + 1:]:
            if b in WS_NEW:
                yield [a, b]


def enum_layouts():
    """Every layout of layouts() x (all 24 of hash family x field order x ignorable fields for a layout of
    one flag or of 3+, all 4 field orders at a rotating (hash, ignorable fields) for a pair) x three fixed
    histories x every start state without fault, and - local copy at the oldest version - x {last patch
    replaced, first patch self-consistent but wrong, wrong Current hash, rename failing}."""
    hx = [(h, e) for h in ("SHA1", "SHA256", "both") for e in (False, True)]
    for k, ws in enumerate(layouts()):
        for order in range(4):
            for h, extra in (hx if len(ws) != 2 else [hx[(k + order) % len(hx)]]):
                for i in LAYOUT_HISTORIES:
                    vs = FIXED[i]
                    n = len(vs) - 1
                    hist = {"versions": vs, "hash": h, "order": order, "extra": extra, "names": (k + i) & 1,
                            "verbose": False, "via": 0, "ws": ws, "debris": None, "prior": None}
                    for start in [["absent"]] + [["v", j] for j in range(n)] + [["current"], ["foreign"]]:
                        yield dict(hist, start=start, faults=[])
                    for f in (["patch", "replaced", n - 1], ["patch", "wrong", 0], ["index", "wrong-current", 0],
                              ["rename"]):
                        yield dict(hist, start=["v", 0], faults=[f])


# sizes beyond a buffer: histories written with repeat counts


def run_bytes(it):
    """UTF-8 size of a run [count, first, width(, fill)] without expanding it."""
    count, first, width = it[:3]
    fb = len((it[3] if len(it) > 3 else "x").encode("utf-8"))
    total, d, lo = 0, 1, 0
    while lo < first + count:
        hi = 10 ** d
        k = min(hi, first + count) - max(lo, first)
        if k > 0:
            total += k * (d + 1 if d >= width - 1 else d + 2 + (width - 2 - d) * fb)
        lo, d = hi, d + 1
    return total


def items_bytes(v):
    return sum(len(it.encode("utf-8")) if isinstance(it, str) else run_bytes(it) for it in v)


def fit(before, total, after=(), ch="y"):
    """before + one filler line + after, ``total`` bytes long in UTF-8."""
    r = total - items_bytes(before) - items_bytes(after)
    if r < 1:
        raise RuntimeError("C19 harness: nothing left to fill (%d)" % r)
    return list(before) + [ch * (r - 1) + "\n"] + list(after)


def run_within(nbytes, first, width, *fill):
    """The longest run [count, first, width(, fill)] of at most nbytes bytes (count >= 1)."""
    lo, hi = 1, max(nbytes, 1)
    while lo < hi:
        mid = (lo + hi + 1) // 2
        lo, hi = (mid, hi) if run_bytes([mid, first, width] + list(fill)) <= nbytes else (lo, mid - 1)
    return [lo, first, width] + list(fill)


SIZE_WIDTH = 50


def size_histories(b):
    """(name, versions) around the boundary b: files and patches b - 1, b and b + 1 bytes long, growing and
    shrinking across b through the chain, one line of about b bytes, very many short lines, non-ASCII
    lines (b falls between the size in characters and the size in bytes), all the content replaced."""
    w = SIZE_WIDTH
    main = [[(b - 2 * w) // w, 0, w]]
    yield "grow-at-the-end", [fit(main, b - 1), fit(main, b), fit(main, b + 1)]
    yield "shrink-at-the-start", [fit([], b + 1, main), fit([], b - 1, main), fit([], b, main)]
    # from a few lines to more than b and back: the middle version is local or published
    yield "jump-up-and-down", [["a\n", "b\n", "c\n"], ["a\n"] + fit(main, b + 1 - 6) + ["b\n", "c\n"], ["a\n", "c\n"]]
    # patches b - 1, b, b + 1 bytes long: "<n>a", the appended lines, "."
    vs = [["a\n"]]
    for t, size in enumerate((b - 1, b, b + 1)):
        text = size - len("%da\n" % n_lines(vs[-1])) - 2
        vs.append(vs[-1] + fit([[(text - 2 * w) // w, 100000 * (t + 1), w]], text, ch="yzu"[t]))
    yield "patch-sizes", vs
    yield "one-long-line", [["a\n", "b\n"]] + [["a\n", [1, 0, size], "b\n"] for size in (b - 1, b, b + 1)]
    # bare numbers ("17\\n": 2..8 bytes a line), the version's size adjusted in the middle of the file
    head = run_within(b // 2, 0, 2)
    tail = run_within(b - b // 2 - 2 * w, head[0], 2)
    yield "short-lines", [fit([head], b - 1, [tail]), fit([head], b + 1, [tail]), fit([head], b, [tail])]
    accented = [run_within(b - 2 * w, 0, w, "\xe9")]
    yield "non-ascii-lines", [fit(accented, b - 1), fit(accented, b), fit(accented, b + 1)]
    yield "all-replaced", [fit(main, b + 1), fit([[(b - 2 * w) // w, 500000, w]], b - 1, ch="z")]


def enum_sizes(boundaries=BOUNDARIES):
    """Every history of size_histories() at every boundary x SHA1 / SHA256 x every start state without
    fault, and - local copy at the oldest version - x {each patch self-consistent but wrong (the wrong line
    is the last of the result), each patch replaced by an equivalent script (differs at its end only), last
    patch replaced, wrong Current hash, first / last write failing, open, rename, close failing}."""
    k = 0
    for b in boundaries:
        for name, vs in size_histories(b):
            n = len(vs) - 1
            for h in ("SHA1", "SHA256"):
                k += 1
                hist = {"versions": vs, "hash": h, "order": k % 4, "extra": bool(k & 4), "names": (k >> 1) & 1,
                        "verbose": False, "via": 0, "ws": [], "debris": None, "prior": None}
                for start in [["absent"]] + [["v", j] for j in range(n)] + [["current"], ["foreign"]]:
                    yield dict(hist, start=start, faults=[])
                fl = [["patch", kind, j] for j in range(n) for kind in ("wrong", "equivalent")]
                fl += [["patch", "replaced", n - 1], ["index", "wrong-current", 0], ["write", 1],
                       ["write", n_lines(vs[-1])], ["open"], ["rename"], ["close"]]
                for f in fl:
                    yield dict(hist, start=["v", 0], faults=[f])


def histories_phase(n_histories):
    """Custom source: Hypothesis draws histories; every plan of every history goes through check()."""
    def fn(shard, nshards, seed, deadline, rec):
        import hypothesis
        from hypothesis import given, settings, HealthCheck, Phase
        from .. import engine
        mod = sys.modules[__name__]
        state = {}

        def inner(hist):
            if rec.budget_exhausted or rec.expired():
                return
            hist = jsonable(hist)
            todo = plans(hist)
            if state.get("sig"):
                # shrinking: keep to the plan class that failed, so that a candidate history costs
                # a few runs instead of the whole plan set
                todo = [p for p in todo if plan_class(*p) == state["cls"]]
            else:
                rec.note("histories-enumerated")
            for start, faults, verbose, debris, prior in todo:
                case = dict(hist, start=start, faults=faults, verbose=verbose, debris=debris, prior=prior)
                try:
                    res = engine.run_oracle(mod, case)
                except Violation as v:
                    if v.sig in rec.excluded:
                        rec.excluded_hits += 1
                        continue
                    if state.get("sig") not in (None, v.sig):
                        continue
                    state.update(sig=v.sig, cls=plan_class(start, faults, verbose, debris, prior), v=v, case=case)
                    raise
                rec.ok(case, res)

        phases = [Phase.generate, Phase.shrink]
        if os.environ.get("VERIF_NO_SHRINK"):
            phases = [Phase.generate]
        stg = settings(max_examples=n_histories, database=None, deadline=None, derandomize=False,
                       report_multiple_bugs=False, phases=phases, print_blob=False,
                       suppress_health_check=list(HealthCheck))
        for _ in range(engine.MAX_SIGS_PER_SHARD):
            state.clear()
            test = hypothesis.seed(seed)(stg(given(gen_history())(inner)))
            try:
                test()
            except Violation:
                pass
            except hypothesis.errors.Flaky:
                # the wall-clock guard cut in while Hypothesis was shrinking; keep what was found
                if "case" not in state:
                    raise
            else:
                break
            rec.fail(state["case"], state["v"])
            rec.evals -= 1
            rec.excluded.add(state["sig"])
    return fn


def sources(tier):
    if tier == "quick":
        return [Enum("fixed-histories", enum_fixed, EXHAUSTIVE["quick"]),
                Enum("index-layouts", enum_layouts, LAYOUTS_DESC), Enum("sizes", enum_sizes, SIZES_DESC),
                Custom("histories", histories_phase(12), shards=16)]
    return [Enum("fixed-histories", enum_fixed, EXHAUSTIVE["thorough"]),
            Enum("index-layouts", enum_layouts, LAYOUTS_DESC), Enum("sizes", enum_sizes, SIZES_DESC),
            Custom("histories", histories_phase(400), shards=16)]
