"""C01 - the format-preserving parser is lossless.

case = {"mode": "term" | "lastopen" | "none", "lines": [line bodies without "\\n"], "bytes": bool}

  term      every line is followed by "\\n"
  lastopen  every line but the last is followed by "\\n"; the last body is non-empty
  none      two or more lines, none terminated (the parser's "implicit newline" mode)
"""
import io
import itertools
import warnings

from hypothesis import strategies as st

from ..core import Violation, Enum, Hyp, Custom, short

from debian._deb822_repro import parse_deb822_file
from debian._deb822_repro.tokens import tokenize_deb822_file

ID = "C01"
LEVEL = "exploration"
RULE = ("cases are (termination mode, list of line bodies, str|bytes); enumerated: every sequence "
        "of 1..3 (quick) / 1..4 (thorough) bodies from a 26-body alphabet with one or two "
        "representatives per lexical line class x 3 termination modes; generated: 0..12 lines "
        "of arbitrary Unicode (wide alphabet rich in exotic whitespace) mixed with well-formed "
        "field/comment/continuation lines; thorough adds an Atheris byte-level campaign. "
        "Non-trivial = at least two lines of different lexical class, or an unterminated last "
        "line; distinct = distinct canonical JSON of the case")
ASSUMPTIONS = [
    "expected text is the plain concatenation of the generated lines (no model of the parser)",
    "an empty unterminated string is not a line (documented caller error), generated only in 'none' mode",
    "Hypothesis 6.168 generators; sha1 for distinctness",
]
EXHAUSTIVE = {"quick": "all sequences of 1..3 line bodies over the 26-body class alphabet x 3 termination modes",
              "thorough": "all sequences of 1..4 line bodies over the 26-body class alphabet x 3 termination modes"}
BUDGET = {"quick": 200, "thorough": 1500}

BODIES = [
    "", " ", "\t", "\u00a0", "\r", "\x0b", "\u2028", "\x85",
    "#c", "# c ", "A: b", "A:", "A:b ", "A:\t", "a: c", "B: x",
    " c", "\tc", " #x", " .", "junk", "-A: b", ":", "A : b", "a\rb: c", "A: b\r",
]


def classify(body):
    if body == "":
        return "empty"
    if body.isspace():
        return "ws-ascii" if body.strip(" \t") == "" else "ws-exotic"
    if body[0] == "#":
        return "comment"
    if body[0] in " \t":
        return "cont"
    if ":" in body and body[0] not in "-:" and " " not in body.split(":")[0]:
        return "field"
    return "other"


def all_lines(case):
    """``repeat`` (optional) repeats the list of line bodies: big documents as small cases."""
    k = case.get("repeat", 1)
    return case["lines"] * k if isinstance(k, int) and 1 < k <= 20000 else case["lines"]


def expected_text(case):
    lines, mode = all_lines(case), case["mode"]
    if mode == "term" or mode == "none":
        return "".join(l + "\n" for l in lines)
    return "".join(l + "\n" for l in lines[:-1]) + lines[-1]


def input_lines(case):
    lines, mode = all_lines(case), case["mode"]
    if mode == "term":
        out = [l + "\n" for l in lines]
    elif mode == "none":
        out = list(lines)
    else:
        out = [l + "\n" for l in lines[:-1]] + [lines[-1]]
    if case.get("bytes"):
        out = [l.encode("utf-8") for l in out]
    return out


def valid_case(case):
    lines, mode = all_lines(case), case["mode"]
    if any("\n" in l for l in lines):
        return False
    if mode == "none":
        return len(lines) >= 2
    if mode == "lastopen":
        return len(lines) >= 1 and lines[-1] != ""
    return True


class _Abort(Exception):
    pass


ABORTED = [
    ["# pending comment\n", "# second\n"],
    ["A0: stale\n", " stale continuation\n"],
    ["stale error line\n", "another\n"],
    ["A0: stale\n", "B0: stale\n", "# c\n"],
    ["\n", " \n"],
]


def aborted_parse(k):
    """An earlier parse in this process that never completed: its line source fails while a run of
    comment / field / error / blank lines is still pending (k selects which), or hands over
    inconsistent line endings.  Nothing of it may show up in any later parse."""
    def src():
        for l in ABORTED[k % len(ABORTED)]:
            yield l
        raise _Abort()
    try:
        parse_deb822_file(src(), accept_files_with_error_tokens=True,
                          accept_files_with_duplicated_fields=True)
    except _Abort:
        pass
    try:
        parse_deb822_file(iter(ABORTED[(k + 1) % len(ABORTED)] + ["unterminated", "next\n"]),
                          accept_files_with_error_tokens=True, accept_files_with_duplicated_fields=True)
    except ValueError:
        pass
    try:
        list(tokenize_deb822_file(src()))
    except _Abort:
        pass


def check(case):
    if not valid_case(case):
        return (False, ("invalid-case-skipped",))
    exp = expected_text(case)
    lines = input_lines(case)
    aborted_parse(len(exp) + len(lines))
    # token stream
    toks = list(tokenize_deb822_file(iter(lines)))
    got = "".join(t.text for t in toks)
    if got != exp:
        raise Violation("tokens-differ", "tokens give %s, input %s" % (short(got), short(exp)))
    f = parse_deb822_file(iter(lines), accept_files_with_error_tokens=True,
                          accept_files_with_duplicated_fields=True)
    d = f.dump()
    if d != exp:
        raise Violation("dump-differs", "dump gives %s, input %s" % (short(d), short(exp)))
    bio = io.BytesIO()
    f.dump(bio)
    if bio.getvalue() != exp.encode("utf-8"):
        raise Violation("bytes-dump-differs", "binary dump %s" % short(bio.getvalue()))
    if f.convert_to_text() != exp:
        raise Violation("convert-to-text-differs", short(f.convert_to_text()))
    parts = "".join(p.dump() if hasattr(p, "dump") else p.convert_to_text() for p in f.iter_parts())
    if parts != exp:
        raise Violation("parts-differ", "concatenated parts %s" % short(parts))
    # file objects are iterables of lines, too ("a file open for reading will do")
    if case["mode"] != "none":
        want = [l if isinstance(l, str) else l.decode("utf-8") for l in lines]
        for fobj in (io.StringIO(exp, newline="\n"), io.BytesIO(exp.encode("utf-8"))):
            fl = [x if isinstance(x, str) else x.decode("utf-8") for x in fobj]
            fobj.seek(0)
            if fl != want:
                continue     # file iteration itself would cut this text into other lines
            g = parse_deb822_file(fobj, accept_files_with_error_tokens=True,
                                  accept_files_with_duplicated_fields=True)
            if g.dump() != exp:
                raise Violation("dump-differs", "%s input: dump gives %s, input %s" % (
                    type(fobj).__name__, short(g.dump()), short(exp)))
    # What an earlier call handed out belongs to the caller: edit the first result (a perturbation
    # only - whether these edits behave is C05/C10's business), then parse the same input again.
    for para in list(f):
        try:
            para["X-Scribble"] = "1"
            for k in list(para.keys())[:1]:
                del para[k]
        except (KeyError, ValueError):
            pass
    # a list (re-iterable) must behave as an iterator does
    f2 = parse_deb822_file(lines, accept_files_with_error_tokens=True,
                           accept_files_with_duplicated_fields=True)
    if f2.dump() != exp:
        raise Violation("dump-differs", "list input: dump gives %s" % short(f2.dump()))
    # Two live documents with the same layout are independent: re-ordering the fields of one
    # (again a perturbation only) leaves the dump of an unmodified one - parsed before or after -
    # exactly the input.
    f3 = parse_deb822_file(iter(lines), accept_files_with_error_tokens=True,
                           accept_files_with_duplicated_fields=True)
    if len(lines) <= 64:
        for para in list(f2):
            ks = []
            for k in para.keys():
                if str(k).lower() not in [x.lower() for x in ks]:
                    ks.append(str(k))
            if len(ks) >= 2:
                try:
                    para.order_after(ks[0], ks[-1])
                    para.order_before(ks[-1], ks[0])
                    para.order_first(ks[-1])
                    para.order_last(ks[0])
                    para.sort_fields()
                except (KeyError, ValueError):
                    pass
        f4 = parse_deb822_file(iter(lines), accept_files_with_error_tokens=True,
                               accept_files_with_duplicated_fields=True)
        for which, g in (("parsed before", f3), ("parsed after", f4)):
            if g.dump() != exp:
                raise Violation("dump-depends-on-another-document",
                                "a document %s another one with the same lines was re-ordered dumps %s, "
                                "input %s" % (which, short(g.dump()), short(exp)))

    if len(exp) > 8192:
        labels_big = ["document-longer-than-8192-chars"]
    else:
        labels_big = []
    classes = [classify(l) for l in case["lines"]]
    labels = ["mode:" + case["mode"]] + labels_big
    if case.get("bytes"):
        labels.append("bytes-input")
    if any(type(t).__name__ == "Deb822ErrorToken" for t in toks):
        labels.append("error-tokens")
    for a, b in zip(classes, classes[1:]):
        if a.startswith("ws") or a == "empty":
            if b.startswith("ws") or b == "empty":
                labels.append("adjacent-blank-lines")
                break
    if "ws-exotic" in classes:
        labels.append("exotic-whitespace-line")
    if any(a == "comment" and b == "cont" for a, b in zip(classes, classes[1:])):
        labels.append("comment-before-continuation")
    names = [l.split(":")[0].lower() for l, c in zip(case["lines"], classes) if c == "field"]
    if len(names) != len(set(names)):
        labels.append("duplicate-field-name")
    nontrivial = len(set(classes)) >= 2 or case["mode"] == "lastopen"
    return (nontrivial, labels)


# ------------------------------------------------------------------------------------------
# generators


def enum_cases(maxlen):
    def gen():
        for n in range(1, maxlen + 1):
            for seq in itertools.product(BODIES, repeat=n):
                seq = list(seq)
                yield {"mode": "term", "lines": seq, "bytes": False}
                if seq[-1] != "":
                    yield {"mode": "lastopen", "lines": seq, "bytes": False}
                if n >= 2:
                    yield {"mode": "none", "lines": seq, "bytes": False}
    return gen


WIDE = ("abAB019zZ:#-.,;=+~ \t\r\x0b\x0c\x1c\x1d\x1e\x1f\x85\u00a0\u1680\u2000\u2028\u2029\u3000"
        "\u0301\u00e9\u00df\u6f22\U0001d4b3\x00\x7f\ufeff")
wide_text = st.text(alphabet=st.sampled_from(WIDE), max_size=8)


def exotic_lines():
    """Every character of the wide alphabet as a line of its own, as the head and as the tail of
    a line, in every termination mode and at the first / last position of a short document."""
    for c in WIDE:
        for b in (False, True):
            for body_ in (c, c + "x", "x" + c, c + ":" + c, c + c):
                yield {"mode": "lastopen", "lines": [body_], "bytes": b}
                yield {"mode": "term", "lines": [body_], "bytes": b}
                yield {"mode": "none", "lines": [body_, "A: b"], "bytes": b}
                yield {"mode": "none", "lines": ["A: b", body_], "bytes": b}
                yield {"mode": "lastopen", "lines": ["A: b", body_], "bytes": b}
                yield {"mode": "term", "lines": [body_, " c", body_], "bytes": b}
any_text = st.text(alphabet=st.characters(blacklist_characters="\n", blacklist_categories=("Cs",)), max_size=10)
name = st.sampled_from(["A", "a", "Ab", "X-y", "!", "Foo", "B"])
wellformed = st.one_of(
    st.builds(lambda n, sp, v, t: n + ":" + sp + v + t, name,
              st.sampled_from(["", " ", "  ", "\t"]), st.sampled_from(["", "v", "v w", ":x", "#y"]),
              st.sampled_from(["", " ", "\t ", "\r"])),
    st.builds(lambda m, v: m + v, st.sampled_from([" ", "\t", "  "]),
              st.sampled_from(["c", "c d ", ".", "#n", "c\r"])),
    st.sampled_from(["#", "# comment", "#\t"]),
    st.sampled_from(["", " ", "\t", " \t "]),
)
body = st.one_of(wellformed, wellformed, st.sampled_from(BODIES), wide_text, any_text)


@st.composite
def gen_case(draw):
    lines = draw(st.lists(body, min_size=0, max_size=12))
    mode = draw(st.sampled_from(["term", "term", "lastopen", "none"]))
    if mode == "none" and len(lines) < 2:
        lines = lines + draw(st.lists(body, min_size=2, max_size=3))
    if mode == "lastopen":
        if not lines or lines[-1] == "":
            lines = lines + [draw(body.filter(lambda b: b != ""))]
    return {"mode": mode, "lines": lines, "bytes": draw(st.booleans())}


# ------------------------------------------------------------------------------------------
# Atheris (thorough): bytes -> text -> lines


def fuzz_phase(shard, nshards, seed, deadline, rec):
    from . import _fuzz
    _fuzz.run_atheris("vcheck.props.c01", "fuzz_bytes_to_case", shard, seed, deadline, rec,
                      runs=150000, max_len=48,
                      corpus=[b"A: b\n c\n\nB: d\n", b"\n\n\n\r", b"# c\nA:\n x\n"] if shard else [])


def fuzz_bytes_to_case(data):
    if not data:
        return None
    mode = ("term", "lastopen", "none", "term")[data[0] & 3]
    asbytes = bool(data[0] & 4)
    try:
        text = data[1:].decode("utf-8")
    except UnicodeDecodeError:
        text = data[1:].decode("latin-1")
    case = {"mode": mode, "lines": text.split("\n"), "bytes": asbytes}
    if mode != "none" and case["lines"] and case["lines"][-1] == "":
        case["lines"].pop()
    return case if valid_case(case) else None


def big_docs():
    """Documents beyond the sizes of I/O buffers (8 KiB, 64 KiB): repeated blocks and single very
    long lines, in every termination mode, as str and bytes."""
    blocks = [["A: b", " c", "", "#x", "B: d"], ["junk", " orphan", "A:b", "A: dup"],
              ["A: " + "v" * 9000], ["# " + "c" * 9000, "A: b"], [" " * 9000, "A: b", "\t" * 70000],
              ["A:", " " + "w" * 20000, " x"], ["Key-%s: v" % ("k" * 8189)]]
    for b in blocks:
        for rep in (1, 400, 2500, 12000):
            if rep > 1 and sum(len(x) for x in b) > 1000:
                continue
            if rep == 12000 and b is not blocks[0]:
                continue
            for mode in ("term", "lastopen", "none"):
                if mode == "none" and len(b) * rep < 2:
                    continue
                for by in (False, True):
                    yield {"mode": mode, "lines": b, "repeat": rep, "bytes": by}


def sources(tier):
    if tier == "quick":
        return [Enum("big-documents", big_docs, "7 blocks x repeats 1/400/2500(/12000) x 3 modes x str/bytes"),
                Enum("line-classes<=3", enum_cases(3), EXHAUSTIVE["quick"]),
                Enum("exotic-single-lines", exotic_lines, "each of the %d wide-alphabet characters x 5 line shapes x 6 placements x str/bytes" % len(WIDE)),
                Hyp("unicode-lines", gen_case(), 1500, shards=8)]
    return [Enum("big-documents", big_docs, "7 blocks x repeats 1/400/2500(/12000) x 3 modes x str/bytes"),
            Enum("line-classes<=4", enum_cases(4), EXHAUSTIVE["thorough"]),
            Enum("exotic-single-lines", exotic_lines, "each of the %d wide-alphabet characters x 5 line shapes x 6 placements x str/bytes" % len(WIDE)),
            Hyp("unicode-lines", gen_case(), 20000, shards=16),
            Custom("atheris", fuzz_phase, shards=2)]
