"""C10 - structural edits of a preserved document only move or insert whole elements.

case = {"doc": <gen/docs.py document; paragraphs may repeat a field name, also in other case>,
        "ops": [["first"|"last", pi, key] | ["before"|"after", pi, key, refkey] |
                ["sort", pi, keyname] | ["set", pi, key, value] | ["setnew", pi, name, value] |
                ["del", pi, key(, "pop")] | ["ordermissing", pi, "first"|"last"|"before"|"after", name] |
                ["append", paraspec] | ["insert", idx, paraspec] |
                ["get", pi, key, "item"|"get"|"in"|"kvpair"]],
        "blind": bool}     # True: between the operations only the dump is looked at
key      = [name index, occurrence index or null, case mode]   (indices modulo what is live;
            occurrence null = the un-indexed key, i.e. all occurrences; case mode 3..5 = the key is
            handed over as the occurrence's field-name token where it denotes one occurrence; 6..8 = an
            indexed key is written with its negative index (name, i - count))
paraspec = {"fields": [[name, value], ...], "how": "assign" | "from_dict"}
"""
from hypothesis import strategies as st

from ..core import Violation, Enum, Hyp, short
from ..gen import docs
from ..model.docmodel import DocRun, spell, SORT_KEYS

ID = "C10"
LEVEL = "exploration"
RULE = ("cases are (document built from structure, paragraphs with unique or duplicated field "
        "names incl. case variants, free comments, with/without final newline, unterminated "
        "trailing comment) x 1..6 structural operations (order_first/last/before/after with plain "
        "(name, i) and name-token keys, sort_fields with 5 key functions, indexed/un-indexed set and "
        "delete (del and pop), reads, enumerated edit-then-move pairs, documents with paragraphs of equal content, "
        "insert/append of new paragraphs); dump, keys(), every (name, i) lookup and live reads are "
        "compared with the list model after EVERY operation, a fresh parse after paragraph "
        "operations and at the end. Non-trivial = a duplicated field moved, or a paragraph "
        "inserted/appended, or an ordering operation on a document without final newline; "
        "distinct = distinct canonical JSON")
ASSUMPTIONS = [
    "reference document model (vcheck/model/docmodel.py): list surgery over generated structure, no parser",
    "docstring semantics: un-indexed move = all occurrences keeping relative order; before uses "
    "the first, after the last occurrence of the reference; un-indexed set replaces the first "
    "occurrence and removes the rest; un-indexed delete removes all",
    "insert/append: the number of newline characters added around the new paragraph and the side "
    "of a free comment are the library's choice; separation is judged by the fresh parse",
    "the missing final newline may be supplied by any operation and must be supplied when something follows",
]
BUDGET = {"quick": 200, "thorough": 1500}


def resolve_key(run, p, key):
    names = run.names(p)
    if not names:
        return None
    name = names[key[0] % len(names)]
    n = len(run.occ(p, name))
    occ = None if key[1] is None else key[1] % n
    return (spell(name, key[2] % 3), occ)


def roles(*keys):
    """case mode 3..5 = hand the library the occurrence's field-name token instead of the
    name / (name, i) (same spelling rules as 0..2 where the token form is not applicable)."""
    return tuple(r for r, k in zip(("key", "ref"), keys) if k is not None and 3 <= k[2] < 6)


def neg_roles(*keys):
    """case mode 6..8 = an indexed key is written with its negative index (name, i - count)."""
    return tuple(r for r, k in zip(("key", "ref"), keys) if k is not None and k[2] >= 6)


def check(case):
    doc = case["doc"]
    if not docs.wellformed_doc(doc):
        return (False, ("invalid-case-skipped",))
    run = DocRun(doc, dups=True, strict_nl=False, blind=bool(case.get("blind")))
    nontrivial = False
    open_doc = "doc-without-final-newline" in run.labels
    for op in case["ops"]:
        kind = op[0]
        what = str(op)
        if kind in ("append", "insert"):
            spec = op[-1]
            if not spec.get("fields"):
                continue
            if kind == "append":
                run.do_append(spec, what)
            else:
                run.do_insert(op[1] % (len(run.paras) + 2), spec, what)
            nontrivial = True
            run.compare(what)
            run.finish()
            continue
        pi = op[1] % len(run.paras)
        p = run.paras[pi]
        what = "%s on paragraph %d %r" % (op, pi, [f["n"] for f in p])
        if kind == "get":
            # a read between the operations (the only look-up by key in a blind history)
            if p:
                key = resolve_key(run, p, op[2])
                run.token_roles, run.neg_roles = roles(op[2]), neg_roles(op[2])
                run.do_get(pi, key, op[3], what)
                run.token_roles = run.neg_roles = ()
            continue
        if kind in ("first", "last", "before", "after"):
            if not p:
                continue
            key = resolve_key(run, p, op[2])
            ref = resolve_key(run, p, op[3]) if kind in ("before", "after") else None
            dup = len(run.occ(p, key[0])) > 1
            run.token_roles = roles(op[2], op[3] if ref is not None else None)
            run.neg_roles = neg_roles(op[2], op[3] if ref is not None else None)
            run.do_order(pi, kind, key, ref, what)
            run.token_roles = run.neg_roles = ()
            run.labels.add("order-" + kind + ("-indexed" if key[1] is not None else ""))
            if dup:
                run.labels.add("order-on-duplicated-field")
                nontrivial = True
            if open_doc:
                nontrivial = True
        elif kind == "ordermissing":
            if run.occ(p, op[3]) or not p:
                continue
            ref = (p[0]["n"], None)
            run.do_order(pi, op[2], (op[3], None), ref, what)
        elif kind == "refmissing":
            # the field exists, the reference does not: KeyError, and nothing has moved
            if run.occ(p, "Nope") or not p or op[2] not in ("before", "after"):
                continue
            key = resolve_key(run, p, op[3])
            run.token_roles, run.neg_roles = roles(op[3]), neg_roles(op[3])
            run.do_order(pi, op[2], key, ("Nope", None), what)
            run.token_roles = run.neg_roles = ()
        elif kind == "sort":
            run.do_sort(pi, op[2] if op[2] in SORT_KEYS else "default")
            run.labels.add("sort")
            if open_doc:
                nontrivial = True
        elif kind == "set":
            if not p:
                continue
            key = resolve_key(run, p, op[2])
            if len(run.occ(p, key[0])) > 1:
                run.labels.add("set-on-duplicated-field" + ("-indexed" if key[1] is not None else ""))
            run.token_roles, run.neg_roles = roles(op[2]), neg_roles(op[2])
            run.do_set(pi, key, op[3], what)
            run.token_roles = run.neg_roles = ()
        elif kind == "setnew":
            if run.occ(p, op[2]):
                continue
            run.do_set(pi, (op[2], None), op[3], what)
        elif kind == "del":
            if not p:
                continue
            key = resolve_key(run, p, op[2])
            gone = len(run.occ(p, key[0])) if key[1] is None else 1
            if gone >= len(p):
                # a paragraph without fields is not a paragraph (is_valid_file says so): emptying
                # one and later re-filling it is outside the stated domain
                continue
            if len(run.occ(p, key[0])) > 1:
                run.labels.add("del-on-duplicated-field" + ("-indexed" if key[1] is not None else ""))
            run.token_roles, run.neg_roles = roles(op[2]), neg_roles(op[2])
            run.do_del(pi, key, what, op[3] if len(op) > 3 else None)
            run.token_roles = run.neg_roles = ()
        else:
            continue
        run.compare(what)
    run.finish()
    if any(len(run.occ(p, n)) > 1 for p in run.paras for n in run.names(p)):
        run.labels.add("has-duplicates-at-end")
    return (nontrivial, sorted(run.labels))


key = st.tuples(st.integers(0, 4), st.one_of(st.none(), st.integers(0, 3)), st.integers(0, 8))
value = st.sampled_from(docs.VALUES)
paraspec = st.fixed_dictionaries({
    "fields": st.lists(st.tuples(st.sampled_from(["Package", "X", "Alpha", "zed"]), value),
                       min_size=1, max_size=2),
    "how": st.sampled_from(["assign", "from_dict"])})
pidx = st.integers(0, 4)
op = st.one_of(
    st.tuples(st.sampled_from(["first", "last"]), pidx, key),
    st.tuples(st.sampled_from(["before", "after"]), pidx, key, key),
    st.tuples(st.just("sort"), pidx, st.sampled_from(sorted(SORT_KEYS))),
    st.tuples(st.just("set"), pidx, key, value),
    st.tuples(st.just("setnew"), pidx, st.sampled_from(docs.NEW_NAMES), value),
    st.tuples(st.just("del"), pidx, key, st.sampled_from([None, None, "pop"])),
    st.tuples(st.just("ordermissing"), pidx, st.sampled_from(["first", "last", "before", "after"]),
              st.just("Nope")),
    st.tuples(st.just("refmissing"), pidx, st.sampled_from(["before", "after"]), key),
    st.tuples(st.just("append"), paraspec),
    st.tuples(st.just("insert"), st.integers(0, 5), paraspec),
    st.tuples(st.just("get"), pidx, key, st.sampled_from(["item", "get", "in", "kvpair"])),
)
_blind = st.sampled_from([False, False, True])
case_dups = st.fixed_dictionaries({"doc": docs.document(dups=True),
                                   "ops": st.lists(op, min_size=1, max_size=6), "blind": _blind})
case_uniq = st.fixed_dictionaries({"doc": docs.document(dups=False),
                                   "ops": st.lists(op, min_size=1, max_size=6), "blind": _blind})


def small_cases():
    """Bounded-exhaustive: one paragraph A,a,B (duplicate in other case), A,B,C, or a name occurring
    three / four times x endings x every single ordering operation with every plain/indexed key."""
    shapes = [["Alpha", "alpha", "Beta"], ["Alpha", "Beta", "alpha"], ["Beta", "Alpha", "ALPHA"],
              ["Alpha", "Beta", "Gamma"], ["Alpha", "alpha"],
              # three and four occurrences: "the last two" and "the first two" are not all there is
              ["Alpha", "alpha", "Beta", "ALPHA"], ["Alpha", "alpha", "ALPHA", "alphA", "Beta"]]
    tails = [("", True), ("", False), ("# trailing\n", False), ("\n# trailing\n", True)]
    spec = {"fields": [["Package", "n"]], "how": "assign"}
    for names in shapes:
        for tail, fin in tails:
            p = [{"n": n, "c": "# c%d\n" % i if i == 1 else "", "b": " v%d\n" % i}
                 for i, n in enumerate(names)]
            for two in (False, True):
                paras = [p] + ([[{"n": "Zed", "c": "", "b": " z\n"}]] if two else [])
                d = {"lead": "", "paras": paras, "seps": ["\n# free\n\n"] * (len(paras) - 1),
                     "tail": tail, "final_nl": fin}
                pi = len(paras) - 1 if not two else 0
                nocc = max(sum(1 for m in names if m.lower() == n.lower()) for n in names)
                keys = [[ni, occ, 0] for ni in range(3) for occ in (None, 0, 1, 2, 3)[:nocc + 1]]
                for k in keys:
                    yield {"doc": d, "ops": [["refmissing", pi, "before", k], ["last", pi, k]]}
                    yield {"doc": d, "ops": [["refmissing", pi, "after", k], ["sort", pi, "default"]]}
                    yield {"doc": d, "ops": [["first", pi, k]]}
                    yield {"doc": d, "ops": [["last", pi, k]]}
                    yield {"doc": d, "ops": [["del", pi, k]]}
                    yield {"doc": d, "ops": [["set", pi, k, "n\n c"]]}
                    for r in keys:
                        yield {"doc": d, "ops": [["before", pi, k, r]]}
                        yield {"doc": d, "ops": [["after", pi, k, r], ["sort", pi, "default"]]}
                for sk in sorted(SORT_KEYS):
                    yield {"doc": d, "ops": [["sort", pi, sk]]}
                yield {"doc": d, "ops": [["append", spec]]}
                for i in range(3):
                    yield {"doc": d, "ops": [["insert", i, spec]]}
                    yield {"doc": d, "ops": [["insert", i, spec], ["append", spec]]}


def edit_then_move():
    """Pairs of operations on small documents (all endings): an edit (set / delete - also through
    pop() and through the name-token key form - / add) followed by something that places text
    behind the last field or addresses the edited name again (move, sort, add, append), and a
    move followed by an add.  Whatever the first operation cached or left behind shows up in the
    second."""
    shapes = [["Alpha", "alpha", "Beta"], ["Beta", "Alpha", "ALPHA"], ["Alpha", "Beta", "Gamma"]]
    tails = [("", True), ("", False), ("# trailing\n", False)]
    spec = {"fields": [["Package", "n"]], "how": "assign"}
    for names in shapes:
        for tail, fin in tails:
            p = [{"n": n, "c": "# c%d\n" % i if i != 1 else "", "b": " v%d\n" % i if i != 2 else " v\n c\n"}
                 for i, n in enumerate(names)]
            d = {"lead": "", "paras": [p], "seps": [], "tail": tail, "final_nl": fin}
            keys = [[ni, occ, m] for ni in range(3) for occ in (None, 0, 1) for m in (0, 3)]
            keys += [[ni, occ, 6] for ni in range(3) for occ in (0, 1)]
            firsts = []
            for k in keys:
                firsts += [["set", 0, k, "n"], ["del", 0, k], ["del", 0, k, "pop"]]
                firsts += [["last", 0, k], ["first", 0, k]]
                firsts += [["after", 0, k, [2, None, 0]], ["after", 0, k, [2, 1, 3]], ["before", 0, k, [0, 0, 3]]]
            firsts += [["setnew", 0, "New", "n"], ["sort", 0, "default"]]
            seconds = [["last", 0, [0, 0, 0]], ["last", 0, [0, None, 0]], ["first", 0, [2, None, 0]],
                       ["after", 0, [0, 0, 0], [2, None, 0]], ["sort", 0, "default"], ["sort", 0, "length"],
                       ["setnew", 0, "New", "n"], ["setnew", 0, "Zed", "n\n c"], ["set", 0, [0, 0, 0], "m"],
                       ["del", 0, [0, 0, 3]], ["del", 0, [0, 1, 6]], ["set", 0, [0, None, 0], "m"], ["append", spec]]
            for o1 in firsts:
                for o2 in seconds:
                    yield {"doc": d, "ops": [o1, o2]}


def insert_sequences():
    """Every sequence of three insert/append calls (indices 0..3 / append) on documents of 1..2
    paragraphs, with and without a free comment between them."""
    spec = lambda n: {"fields": [[n, "v"]], "how": "assign"}     # noqa: E731
    for two in (False, True):
        for sep in ("\n", "\n# free\n\n"):
            paras = [[{"n": "Alpha", "c": "", "b": " 1\n"}]] + ([[{"n": "Beta", "c": "# c\n", "b": " 2\n"}]] if two else [])
            d = {"lead": "", "paras": paras, "seps": [sep] * (len(paras) - 1), "tail": "", "final_nl": True}
            choices = [0, 1, 2, 3, None]
            for a in choices:
                for b in choices:
                    for c in choices:
                        ops = []
                        for k, i in enumerate((a, b, c)):
                            nm = ["Package", "X", "zed"][k]
                            ops.append(["append", spec(nm)] if i is None else ["insert", i, spec(nm)])
                        yield {"doc": d, "ops": ops}


def twin_paragraphs():
    """Documents holding paragraphs of EQUAL content (same fields and values; same or other
    comments and layout): a paragraph is found by what it is, not by what it holds.  Every insert
    position / append, twice, and an edit of one twin."""
    def para(c, sp):
        return [{"n": "Package", "c": c, "b": sp + "a\n"}, {"n": "Depends", "c": "", "b": sp + "x\n"}]
    other = [{"n": "Package", "c": "", "b": " b\n"}]
    spec = lambda n: {"fields": [[n, "v"]], "how": "assign"}     # noqa: E731
    same = {"fields": [["Package", "a"], ["Depends", "x"]], "how": "assign"}
    shapes = [[para("", " "), para("", " ")], [para("", " "), other, para("", " ")],
              [para("# one\n", " "), other, para("# two\n", "  ")], [para("", " "), para("", " "), para("", " ")],
              [other, para("", " "), other, para("# c\n", " ")]]
    for paras in shapes:
        for sep in ("\n", "\n# free\n\n"):
            d = {"lead": "", "paras": paras, "seps": [sep] * (len(paras) - 1), "tail": "", "final_nl": True}
            n = len(paras)
            choices = list(range(n + 2)) + [None]
            for a in choices:
                for b in choices:
                    for first in (spec("X"), same):
                        ops = [["append", first] if a is None else ["insert", a, first],
                               ["append", spec("zed")] if b is None else ["insert", b, spec("zed")]]
                        yield {"doc": d, "ops": ops}
                for pi in range(n):
                    one = ["append", spec("X")] if a is None else ["insert", a, spec("X")]
                    yield {"doc": d, "ops": [["set", pi, [0, None, 0], "changed"], one]}
                    yield {"doc": d, "ops": [one, ["del", pi, [1, None, 0]], ["last", pi, [0, None, 0]]]}


def order_then_sort():
    """Unique-name paragraph, every single ordering operation followed by every sort key (some keys
    rank several names equally: a stable sort keeps their *current* order), also twice."""
    names = ["Alpha", "Gamma", "Delta", "X-y"]
    p = [{"n": n, "c": "", "b": " v%d\n" % i} for i, n in enumerate(names)]
    d = {"lead": "", "paras": [p], "seps": [], "tail": "", "final_nl": True}
    keys = [[i, None, 0] for i in range(4)]
    firsts = [["first", 0, k] for k in keys] + [["last", 0, k] for k in keys]
    firsts += [[o, 0, k, r] for o in ("before", "after") for k in keys for r in keys if k != r]
    firsts += [["sort", 0, sk] for sk in sorted(SORT_KEYS)]
    for o1 in firsts:
        for sk in sorted(SORT_KEYS):
            yield {"doc": d, "ops": [o1, ["sort", 0, sk]]}
            yield {"doc": d, "ops": [o1, ["sort", 0, sk], ["sort", 0, "length"]]}


def sources(tier):
    if tier == "quick":
        return [Enum("small-docs", small_cases, "5 name shapes x 4 endings x 1-2 paragraphs x every single ordering op/key"),
                Enum("insert-sequences", insert_sequences, "all 125 sequences of three insert/append calls x 4 documents"),
                Enum("order-then-sort", order_then_sort, "every ordering op on a 4-field paragraph x 5 sort keys (x a second sort)"),
                Enum("edit-then-move", edit_then_move, "3 name shapes x 3 endings x (edit or move with every key form) x 11 follow-up operations"),
                Enum("twin-paragraphs", twin_paragraphs, "5 documents with paragraphs of equal content x 2 separators x every pair of insert/append positions (+ an edit of one twin)"),
                Hyp("dup-doc-histories", case_dups, 350, shards=8),
                Hyp("uniq-doc-histories", case_uniq, 300, shards=4)]
    return [Enum("small-docs", small_cases, "5 name shapes x 4 endings x 1-2 paragraphs x every single ordering op/key"),
            Enum("insert-sequences", insert_sequences, "all 125 sequences of three insert/append calls x 4 documents"),
            Enum("order-then-sort", order_then_sort, "every ordering op on a 4-field paragraph x 5 sort keys (x a second sort)"),
            Enum("edit-then-move", edit_then_move, "3 name shapes x 3 endings x (edit or move with every key form) x 11 follow-up operations"),
            Enum("twin-paragraphs", twin_paragraphs, "5 documents with paragraphs of equal content x 2 separators x every pair of insert/append positions (+ an edit of one twin)"),
                Hyp("dup-doc-histories", case_dups, 12000, shards=12),
            Hyp("uniq-doc-histories", case_uniq, 8000, shards=4)]
