"""C13 - package relationship fields: PkgRelation.str and PkgRelation.parse_relations are inverse.

case = {"rels": [ [ relation, ... ], ... ]}        conjunction of alternatives
relation = {"name": str,
            "archqual": str | null,
            "version": [op, version] | null,
            "arch": [[enabled, archname], ...] | null,
            "restrictions": [ [[enabled, profile], ...], ... ] | null}

The oracle turns the JSON into the library's structure (tuples, ArchRestriction / BuildRestriction
named tuples), formats it, parses the text back and compares.  A case outside the stated domain
(possible only in a hand-written replay file) is skipped, never judged.
"""
import itertools
import re
import warnings

from hypothesis import strategies as st

from ..core import Violation, Enum, Hyp, short

from debian.deb822 import PkgRelation, Packages, Sources

ID = "C13"
LEVEL = "exploration"
RULE = ("cases are conjunctions (1..4) of alternatives (1..3) of relations {name, archqual?, "
        "(op, version)?, arch list?, restriction formula?}; enumerated: one relation for each of "
        "the 2^4 presence masks of the optional parts x complete product of small leaf pools, and "
        "every ordered pair of masks as two alternatives and as two conjuncts; generated: "
        "Hypothesis structures whose leaves are sampled from deterministic pools built from the "
        "grammars of the property (103 names [A-Za-z0-9][A-Za-z0-9.+-]*, 38 qualifiers/architectures "
        "[a-z0-9][a-z0-9-]*, the five operators, 452 versions with epoch/tilde/colon/hyphen/revision, "
        "negated and plain architectures in any mixture, 1..3 "
        "restriction groups of 1..3 possibly negated profiles); mappings filled in 10 key orders; "
        "structures reached by editing in place a list that was formatted just before (4 ways); "
        "long fields of 255..5000 relations or alternatives; cases run after an earlier parse of an "
        "unreadable field (warnings recorded or raised as errors). Non-trivial = some single relation "
        "carries at least 3 of the 4 optional parts; distinct = distinct canonical JSON")
ASSUMPTIONS = [
    "expected parse result is the generated structure itself (no model of the parser)",
    "empty conjunctions, alternatives, architecture lists and restriction groups are outside the "
    "domain (the text format cannot spell them)",
    "restriction profiles are lower-case (parse_relations lower-cases the formula by design)",
    "named tuples compare equal to plain tuples; attribute names enabled/arch/profile are checked separately",
    "Hypothesis 6.168 generators; sha1 for distinctness",
]
EXHAUSTIVE = {
    "quick": "single relations: 16 presence masks x (4 names, 3 qualifiers, 5 operators x 4 versions, "
             "4 arch lists, 4 restriction formulas); all 16x16 mask pairs as alternatives and as conjuncts",
    "thorough": "single relations: 16 presence masks x (4 names, 3 qualifiers, 5 operators x 4 versions, "
                "4 arch lists, 4 restriction formulas); all 16x16 mask pairs as alternatives and as conjuncts",
}
BUDGET = {"quick": 300, "thorough": 1500}

OPS = ["<<", "<=", "=", ">=", ">>"]
KEYS = ["name", "archqual", "version", "arch", "restrictions"]

NAME_RE = re.compile(r"[A-Za-z0-9][A-Za-z0-9.+-]*\Z")
ARCH_RE = re.compile(r"[a-z0-9][a-z0-9-]*\Z")
PROFILE_RE = re.compile(r"[a-z0-9][a-z0-9.+-]*\Z")
# Version grammar of DESIGN section 3: optional numeric epoch, digit-led upstream, optional revision
VERSION_RE = re.compile(r"(?:[0-9][A-Za-z0-9.+~-]*|[0-9]+:[0-9][A-Za-z0-9.+~:-]*)\Z")


# ------------------------------------------------------------------------------------------
# case validation (replay files may hold anything)


def _is_str(x):
    return isinstance(x, str)


def valid_relation(r):
    if not isinstance(r, dict) or sorted(r) != sorted(KEYS):
        return False
    if not _is_str(r["name"]) or not NAME_RE.match(r["name"]):
        return False
    q = r["archqual"]
    if q is not None and not (_is_str(q) and ARCH_RE.match(q)):
        return False
    v = r["version"]
    if v is not None:
        if not (isinstance(v, list) and len(v) == 2 and v[0] in OPS and _is_str(v[1])
                and VERSION_RE.match(v[1]) and not v[1].endswith("-")):
            return False
    a = r["arch"]
    if a is not None:
        if not (isinstance(a, list) and a):
            return False
        for t in a:
            if not (isinstance(t, list) and len(t) == 2 and isinstance(t[0], bool)
                    and _is_str(t[1]) and ARCH_RE.match(t[1])):
                return False
    x = r["restrictions"]
    if x is not None:
        if not (isinstance(x, list) and x):
            return False
        for g in x:
            if not (isinstance(g, list) and g):
                return False
            for t in g:
                if not (isinstance(t, list) and len(t) == 2 and isinstance(t[0], bool)
                        and _is_str(t[1]) and PROFILE_RE.match(t[1])):
                    return False
    return True


def valid_case(case):
    if not isinstance(case, dict) or not isinstance(case.get("rels"), list) or not case["rels"]:
        return False
    for alts in case["rels"]:
        if not isinstance(alts, list) or not alts:
            return False
        if not all(valid_relation(r) for r in alts):
            return False
    return True


# ------------------------------------------------------------------------------------------
# oracle


KEYS = ["name", "archqual", "version", "arch", "restrictions"]


def _reorder(d, k):
    """The same mapping with its keys inserted in the k-th rotation/reversal of the parser's order
    (a relation is a mapping: the order in which a caller happened to fill it is not part of it)."""
    if not k:
        return d
    ks = KEYS[k % 5:] + KEYS[:k % 5]
    if (k // 5) % 2:
        ks.reverse()
    return dict((x, d[x]) for x in ks)


def to_library(case):
    """JSON -> the structure parse_relations documents (input of PkgRelation.str)."""
    out = []
    n = 0
    for alts in case["rels"]:
        o = []
        for r in alts:
            n += 1
            o.append(_reorder({
                "name": r["name"],
                "archqual": r["archqual"],
                "version": None if r["version"] is None else (r["version"][0], r["version"][1]),
                "arch": None if r["arch"] is None else
                [PkgRelation.ArchRestriction(t[0], t[1]) for t in r["arch"]],
                "restrictions": None if r["restrictions"] is None else
                [[PkgRelation.BuildRestriction(t[0], t[1]) for t in g] for g in r["restrictions"]],
            }, (case.get("korder", 0) * n) if isinstance(case.get("korder", 0), int) else 0))
        out.append(o)
    return out


def recycled(case, mode):
    """The structure under test, living in containers that held ANOTHER structure which was
    formatted a moment ago: a caller edits a relation list in place (new version, another
    alternative, one clause more or fewer) and formats the same list object again.
      mode 1: same shape, other names/versions;  2: one alternative fewer in a group;
      mode 3: one clause fewer;  4: same outer list, inner lists replaced."""
    new = to_library(case)
    prev = to_library(case)
    for alts in prev:
        for r in alts:
            r["name"] = "zz-" + r["name"]
            if r["version"] is not None:
                r["version"] = ("<<", "0~prev")
    if mode == 2:
        for alts in prev:
            if len(alts) > 1:
                del alts[-1]
                break
    elif mode == 3 and len(prev) > 1:
        del prev[-1]
    PkgRelation.str(prev)
    # the in-place edit: outer list and (modes 1-3) inner lists and mappings stay the same objects
    for i, alts in enumerate(new):
        if i < len(prev) and mode != 4:
            for j, r in enumerate(alts):
                if j < len(prev[i]):
                    prev[i][j].clear()
                    prev[i][j].update(r)
                else:
                    prev[i].append(r)
            del prev[i][len(alts):]
        elif i < len(prev):
            prev[i] = alts
        else:
            prev.append(alts)
    del prev[len(new):]
    return prev


def to_plain(case):
    """JSON -> the same structure written with plain tuples (what the parse must equal)."""
    out = []
    for alts in case["rels"]:
        o = []
        for r in alts:
            o.append({
                "name": r["name"],
                "archqual": r["archqual"],
                "version": None if r["version"] is None else (r["version"][0], r["version"][1]),
                "arch": None if r["arch"] is None else [(t[0], t[1]) for t in r["arch"]],
                "restrictions": None if r["restrictions"] is None else
                [[(t[0], t[1]) for t in g] for g in r["restrictions"]],
            })
        out.append(o)
    return out


def first_difference(got, exp):
    """(part, message) naming the first place where the parse differs from the structure."""
    if not isinstance(got, list) or len(got) != len(exp):
        return "shape", "conjunction of %s, expected %d members" % (short(got, 80), len(exp))
    for i, (galts, ealts) in enumerate(zip(got, exp)):
        if not isinstance(galts, list) or len(galts) != len(ealts):
            return "shape", "conjunct %d: %s, expected %d alternatives" % (i, short(galts, 80), len(ealts))
        for j, (g, e) in enumerate(zip(galts, ealts)):
            if not isinstance(g, dict):
                return "shape", "relation %d.%d is %s" % (i, j, short(g, 80))
            for k in KEYS:
                if k not in g:
                    return "shape", "relation %d.%d lacks key %r" % (i, j, k)
                if g[k] != e[k]:
                    return k, "relation %d.%d %s: got %s, expected %s" % (i, j, k, short(g[k], 120), short(e[k], 120))
            if sorted(g) != sorted(KEYS):
                return "shape", "relation %d.%d has keys %s" % (i, j, sorted(g))
    if got != exp:
        return "shape", "structures differ: %s vs %s" % (short(got, 120), short(exp, 120))
    return None


def check_named_tuples(parsed):
    for alts in parsed:
        for r in alts:
            for t in r["arch"] or []:
                if (t.enabled, t.arch) != tuple(t) or not isinstance(t.enabled, bool):
                    raise Violation("parse-differs:arch", "not an ArchRestriction: %r" % (t,))
            for g in r["restrictions"] or []:
                for t in g:
                    if (t.enabled, t.profile) != tuple(t) or not isinstance(t.enabled, bool):
                        raise Violation("parse-differs:restrictions", "not a BuildRestriction: %r" % (t,))


def scribble(rels):
    """Modify a relation structure in place at every level (the caller owns it)."""
    for alts in rels:
        for r in alts:
            if isinstance(r.get("arch"), list):
                r["arch"].append(PkgRelation.ArchRestriction(False, "zz-scribble"))
            if isinstance(r.get("restrictions"), list):
                for g in r["restrictions"]:
                    if isinstance(g, list):
                        g.append(PkgRelation.BuildRestriction(True, "zzscribble"))
                r["restrictions"].append([PkgRelation.BuildRestriction(False, "zzgroup")])
            r["name"] = "zz-scribbled"
            r["version"] = ("<<", "0~scribble")
            r["archqual"] = "zz"
        alts.append({"name": "zz-extra", "archqual": None, "version": None, "arch": None,
                     "restrictions": None})
    rels.append([{"name": "zz-extra", "archqual": None, "version": None, "arch": None,
                  "restrictions": None}])


def mask_of(r):
    return "".join(c if r[k] is not None else "-" for c, k in
                   zip("qvar", ["archqual", "version", "arch", "restrictions"]))


def expand(case):
    """{"rels": R, "repeat": n} stands for the conjunction R repeated n times with the package
    names numbered (a long field written compactly); "wide": n repeats every group's
    alternatives n times instead."""
    n, w = case.get("repeat"), case.get("wide")
    if n is None and w is None:
        return case
    if not all(isinstance(x, int) and 1 <= x <= 20000 for x in (n, w) if x is not None):
        return None
    rels = []
    for i in range(n or 1):
        for alts in case["rels"]:
            g = []
            for j in range(w or 1):
                for r in alts:
                    g.append(dict(r, name="%s%d.%d" % (r["name"], i, j)))
            rels.append(g)
    out = dict(case, rels=rels)
    out.pop("repeat", None)
    out.pop("wide", None)
    return out


def check(case):
    if not valid_case(case):
        return (False, ("invalid-case-skipped",))
    big = case.get("repeat") or case.get("wide")
    case = expand(case)
    if case is None or not valid_case(case):
        return (False, ("invalid-case-skipped",))
    res = check_expanded(case)
    if big:
        return (res[0], sorted(set(res[1]) | {"long-field:%d-relations" % sum(len(a) for a in case["rels"])}))
    return res


GARBAGE = ["foo (= 1", "a b c (>= 1) [", "?? <", "x (>> 1) [amd64", "foo bar", "n (== 1), ,"]


def earlier_failure(kind):
    """An earlier call in the same process that went wrong - a field the parser cannot read,
    with warnings turned into errors (python -W error) or merely recorded - must leave no trace
    in later calls."""
    text = GARBAGE[kind % len(GARBAGE)]
    with warnings.catch_warnings(record=(kind // len(GARBAGE)) % 2 == 0):
        warnings.simplefilter("always" if (kind // len(GARBAGE)) % 2 == 0 else "error")
        try:
            PkgRelation.parse_relations(text)
        except Warning:
            pass


def check_expanded(case):
    if isinstance(case.get("after_failure"), int) and case["after_failure"] > 0:
        earlier_failure(case["after_failure"] - 1)
    rels = to_library(case)
    exp = to_plain(case)
    mode = case.get("recycle")
    if isinstance(mode, int) and 1 <= mode <= 4:
        rels = recycled(case, mode)

    with warnings.catch_warnings(record=True) as caught:
        warnings.simplefilter("always")
        s = PkgRelation.str(rels)
        if not isinstance(s, str):
            raise Violation("str-not-a-string", short(s))
        parsed = PkgRelation.parse_relations(s)
    if caught:
        raise Violation("warning-on-formatted-relation",
                        "%s -> %s" % (short(s, 160), short(str(caught[0].message), 160)))
    d = first_difference(parsed, exp)
    if d is not None:
        raise Violation("parse-differs:" + d[0], "%s parsed as: %s" % (short(s, 160), d[1]))
    check_named_tuples(parsed)
    s2 = PkgRelation.str(parsed)
    if s2 != s:
        raise Violation("str-not-idempotent", "%s then %s" % (short(s, 160), short(s2, 160)))

    # Results belong to the caller: scribbling over what an earlier call handed out (and over the
    # structure that was formatted) must not influence a later call on the same text.
    scribble(parsed)
    with warnings.catch_warnings(record=True) as caught:
        warnings.simplefilter("always")
        again = PkgRelation.parse_relations(s)
    if caught:
        raise Violation("warning-on-formatted-relation",
                        "second parse: %s -> %s" % (short(s, 160), short(str(caught[0].message), 160)))
    d = first_difference(again, exp)
    if d is not None:
        raise Violation("parse-depends-on-earlier-result:" + d[0],
                        "%s parsed again after the first result was modified in place: %s" % (
                            short(s, 160), d[1]))
    scribble(rels)
    s3 = PkgRelation.str(to_library(case))
    if s3 != s:
        raise Violation("str-depends-on-earlier-input", "%s then %s" % (short(s, 160), short(s3, 160)))

    # the same through the relationship mixin (dict input, text input, a source-package class)
    with warnings.catch_warnings(record=True) as caught:
        warnings.simplefilter("always")
        p = Packages({"Package": "x", "Depends": s, "Suggests": s})
        got_d, got_s = p.relations["depends"], p.relations["Suggests"]
        p2 = Packages("Package: x\nPre-Depends: %s\nVersion: 1\n" % s)
        got_t = p2.relations["pre-depends"]
        src = Sources({"Package": "x", "Build-Depends": s})
        got_b = src.relations["build-depends"]
        # the mapping that .relations hands out is read in the other ways a mapping is read, each
        # on an object whose field has not been subscripted before
        got_get = Packages({"Package": "x", "Depends": s}).relations.get("depends")
        got_items = dict(Packages({"Package": "x", "Recommends": s}).relations.items()).get("recommends")
        vals = [v for v in Sources({"Package": "x", "Build-Depends-Indep": s}).relations.values() if v]
        got_values = vals[0] if len(vals) == 1 else vals
        got_dict = dict(Packages({"Package": "x", "Breaks": s}).relations).get("breaks")
    if caught:
        raise Violation("warning-on-formatted-relation",
                        "mixin: %s -> %s" % (short(s, 160), short(str(caught[0].message), 160)))
    for what, got in (("Depends", got_d), ("Suggests", got_s), ("Pre-Depends (text)", got_t),
                      ("Build-Depends", got_b), ("Depends via relations.get()", got_get),
                      ("Recommends via relations.items()", got_items),
                      ("Build-Depends-Indep via relations.values()", got_values),
                      ("Breaks via dict(relations)", got_dict)):
        d = first_difference(got, exp)
        if d is not None:
            raise Violation("mixin-relations-differ:" + d[0],
                            "%s: %s read as: %s" % (what, short(s, 160), d[1]))

    labels = set()
    if case.get("korder"):
        labels.add("mapping-filled-in-another-key-order")
    if case.get("recycle"):
        labels.add("list-edited-in-place-after-an-earlier-str:%s" % case["recycle"])
    if case.get("after_failure"):
        labels.add("after-an-unreadable-field" + (":warnings-as-errors" if ((case["after_failure"] - 1) // len(GARBAGE)) % 2 else ""))
    best = 0
    allr = [r for alts in case["rels"] for r in alts]
    for r in allr:
        m = mask_of(r)
        labels.add("parts:" + m)
        best = max(best, 4 - m.count("-"))
        if r["version"] is not None:
            labels.add("op:" + r["version"][0])
            v = r["version"][1]
            if ":" in v:
                labels.add("version:epoch")
            if "~" in v:
                labels.add("version:tilde")
            if "-" in v:
                labels.add("version:revision")
        if r["arch"] is not None:
            en = set(t[0] for t in r["arch"])
            labels.add("arch:" + ("mixed" if len(en) == 2 else "plain" if True in en else "negated"))
            if len(r["arch"]) > 1:
                labels.add("arch:several")
        if r["restrictions"] is not None:
            labels.add("restrictions:%d-groups" % min(len(r["restrictions"]), 3))
            if any(len(g) > 1 for g in r["restrictions"]):
                labels.add("restrictions:multi-term-group")
            if any(not t[0] for g in r["restrictions"] for t in g):
                labels.add("restrictions:negated-term")
            if any(not t[1].isalnum() for g in r["restrictions"] for t in g):
                labels.add("restrictions:profile-with-punctuation")
        if r["archqual"] is not None and "-" in r["archqual"]:
            labels.add("archqual:hyphen")
        if len(r["name"]) == 1:
            labels.add("name:one-char")
        if not r["name"].isalnum():
            labels.add("name:punctuation")
    if len(case["rels"]) > 1:
        labels.add("conjunction>1")
    if any(len(alts) > 1 for alts in case["rels"]):
        labels.add("alternatives>1")
    return (best >= 3, sorted(labels))


# ------------------------------------------------------------------------------------------
# enumerated skeleton

P_NAMES = ["a", "libc6", "g++-4.9", "X.y+z-"]
P_QUAL = ["any", "native", "linux-any"]
P_VERS = ["1", "2.7-1", "1:1.0~rc1-2", "0+b1"]
P_ARCH = [[[True, "amd64"]], [[False, "hurd-i386"]], [[False, "kfreebsd-i386"], [False, "kfreebsd-amd64"]],
          [[True, "i386"], [False, "arm"], [True, "linux-any"]]]
P_RESTR = [[[[True, "cross"]]], [[[False, "stage1"]]], [[[False, "stage1"]], [[False, "cross"], [False, "stage2"]]],
           [[[True, "a"]], [[False, "pkg.x-y.z+w"], [True, "b"]], [[False, "nocheck"]]]]


def _rel(name, q, v, a, x):
    return {"name": name, "archqual": q, "version": v, "arch": a, "restrictions": x}


def enum_cases():
    versions = [[op, v] for op in OPS for v in P_VERS]
    for mask in itertools.product([False, True], repeat=4):
        pools = [P_NAMES,
                 P_QUAL if mask[0] else [None],
                 versions if mask[1] else [None],
                 P_ARCH if mask[2] else [None],
                 P_RESTR if mask[3] else [None]]
        for name, q, v, a, x in itertools.product(*pools):
            yield {"rels": [[_rel(name, q, v, a, x)]]}

    def fixed(mask, name):
        return _rel(name, "any" if mask[0] else None, [">=", "1:2.0~a-1"] if mask[1] else None,
                    P_ARCH[3] if mask[2] else None, P_RESTR[2] if mask[3] else None)
    masks = list(itertools.product([False, True], repeat=4))
    for m1 in masks:
        for m2 in masks:
            yield {"rels": [[fixed(m1, "p1"), fixed(m2, "p2")]]}
            yield {"rels": [[fixed(m1, "p1")], [fixed(m2, "p2")]]}
    # the same structures as mappings filled in another key order (all 10 rotations/reversals)
    for m1 in masks:
        for k in range(1, 10):
            yield {"rels": [[fixed(m1, "p1")]], "korder": k}
            yield {"rels": [[fixed(m1, "p1"), fixed(masks[(k * 7) % 16], "p2")]], "korder": k}
    # after an earlier call that failed (12 kinds: 6 unreadable fields x warnings recorded / raised)
    for m1 in masks:
        for f in range(1, 13):
            yield {"rels": [[fixed(m1, "p1")], [fixed(masks[(f * 5) % 16], "p2")]], "after_failure": f}
    # long fields: hundreds and thousands of relations / alternatives (Installed-Build-Depends of
    # a .buildinfo easily has several hundred)
    for n in (255, 256, 257, 258, 300, 1000, 5000):
        yield {"rels": [[fixed(masks[5], "p")]], "repeat": n}
        yield {"rels": [[fixed(masks[15], "p")], [fixed(masks[0], "q"), fixed(masks[9], "r")]], "repeat": n // 2 + 1}
        yield {"rels": [[fixed(masks[3], "p")]], "wide": n}
    # the same structures reached by editing, in place, a list that was formatted just before
    for m1 in masks:
        for mode in range(1, 5):
            yield {"rels": [[fixed(m1, "p1")]], "recycle": mode}
            yield {"rels": [[fixed(m1, "p1"), fixed(masks[(mode * 7) % 16], "p2")], [fixed(m1, "p3")]],
                   "recycle": mode}


# ------------------------------------------------------------------------------------------
# generated structures


def _strings(heads, tail, maxtail):
    out = []
    for n in range(maxtail + 1):
        for h in heads:
            for t in itertools.product(tail, repeat=n):
                out.append(h + "".join(t))
    return out


# Leaf pools are built deterministically and sampled with one Hypothesis draw each (character-wise
# text() strategies made generation ten times slower than the oracle without adding shapes the
# regexes of the parser distinguish).
NAMES = (_strings("aZ0", "a0.+-", 2)          # simplest first: sampled_from shrinks towards index 0
         + ["libfoo-dev", "g++", "libstdc++6", "python3.11", "Z", "0ad", "x.y-z+w", "a--", "a..b", "c+-."])
ARCHNAMES = (["any", "native", "amd64", "i386", "linux-any", "kfreebsd-amd64", "hurd-i386", "any-arm",
              "all", "x32", "0--", "a-b-c"] + _strings("a6", "a6-", 2))
PROFILES = (["cross", "stage1", "stage2", "nocheck", "nodoc", "pkg.foo.bar", "pkg.a-b.c+d", "0.+-"]
            + _strings("p0", "p0.+-", 2))


def _versions():
    out = ["1", "2.7-1", "4:3.5.9-2", "1.0~rc1", "5.0.0"]
    ups = ["0", "1", "1.0", "2.7", "1.0~rc1", "0+b1", "1a.Z", "9~~", "0.", "1+"]
    for epoch in ["", "0", "1", "12", "007"]:
        for rev in [None, "1", "0.1", "1~a+b", "Z", "~"]:
            cand = list(ups)
            if rev is not None:
                cand += ["1-2", "0-", "1-a-b"]       # '-' inside upstream only if a revision follows
            if epoch:
                cand += ["1:2", "0:", "1:a-b" if rev is not None else "1:a"]   # ':' only after an epoch
            for up in cand:
                out.append((epoch + ":" if epoch else "") + up + ("-" + rev if rev is not None else ""))
    return out


VERSIONS = _versions()
name_s = st.sampled_from(NAMES)
archname_s = st.sampled_from(ARCHNAMES)
version_pair_s = st.builds(lambda op, v: [op, v], st.sampled_from(OPS), st.sampled_from(VERSIONS))
ARCHTERMS = [[e, a] for a in ARCHNAMES for e in (True, False)]
PROFTERMS = [[e, p] for p in PROFILES for e in (True, False)]
arch_list_s = st.lists(st.sampled_from(ARCHTERMS), min_size=1, max_size=3)
restr_s = st.lists(st.lists(st.sampled_from(PROFTERMS), min_size=1, max_size=3), min_size=1, max_size=3)
MASKS = list(itertools.product([False, True], repeat=4))


@st.composite
def relation_s(draw):
    mask = draw(st.sampled_from(MASKS))
    return _rel(draw(name_s),
                draw(archname_s) if mask[0] else None,
                draw(version_pair_s) if mask[1] else None,
                draw(arch_list_s) if mask[2] else None,
                draw(restr_s) if mask[3] else None)


def _case(rels, k, rec, fail=0):
    c = {"rels": rels}
    if fail:
        c["after_failure"] = fail
    if k:
        c["korder"] = k
    if rec:
        c["recycle"] = rec
    return c


case_s = st.builds(_case,
                   st.lists(st.lists(relation_s(), min_size=1, max_size=3), min_size=1, max_size=4),
                   st.sampled_from([0, 0, 0, 1, 2, 3, 4, 5, 6, 7, 8, 9]),
                   st.sampled_from([0, 0, 0, 1, 2, 3, 4]),
                   st.sampled_from([0] * 8 + list(range(1, 13))))


def sources(tier):
    if tier == "quick":
        return [Enum("mask-skeleton", enum_cases, EXHAUSTIVE["quick"]),
                Hyp("relation-structures", case_s, 700, shards=8)]
    return [Enum("mask-skeleton", enum_cases, EXHAUSTIVE["thorough"]),
            Hyp("relation-structures", case_s, 12000, shards=16)]
