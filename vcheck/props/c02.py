"""C02 - Deb822 paragraphs survive dump and re-parse, whatever the input form.

case = {"paras": [{"fields":   [[name, [first, [cont, ...]]], ...],
                   "comments": [[pos, text], ...],   comment line "#"+text before payload line pos
                                                     (pos is taken modulo number of lines + 1)
                   "armor":    null | {"headers": [...], "sig_headers": [...], "sig": [...],
                                       "gap": bool, "trail": blanks,
                                       "pre": [text...]},   (optional) comment lines directly in
                                                            front of the armor header line
                   "refused":  [{"at": k, "key": "new"|"existing"|"later", "index": i,
                                 "kind": "trailing-newline"|"empty-line"|"unindented-continuation",
                                 "via": "setitem"|"update"}, ...],
                                                     (optional) assignments that must be refused, attempted
                                                     after k (mod fields + 1) fields have been assigned
                   "dumps":    [{"encoding": null | codec, "text_mode": bool, "fail_at": null | k}, ...]}, ...],
                                                     (optional) calls dump(fd[, encoding=codec][, text_mode=True])
                                                     made on the finished paragraph before it is used; fd refuses
                                                     its k-th write() with OSError if fail_at is a number
        "layout": {"lead": n,               blank lines before the first paragraph
                   "lead_free": [text...],  free-standing comment block + blank line at the very start
                   "seps": [{"blank": n>=1, "free": [text...], "blank2": n>=1}, ...],
                                            separator before paragraph i>0 is seps[(i-1) % len]:
                                            n blank lines [+ comment block + n blank lines]
                   "trail": n,              extra blank lines at the end
                   "final_newline": bool,
                   "ws": [blanks, ...],     (optional) the k-th blank line of the layout is
                                            ws[k % len]: empty or SPACE/TAB only; default: all empty
                   "eols": [eol, ...],      (optional) line k of a document ends in eols[k % len]:
                                            LF or CR LF; default: LF everywhere
                   "files": bool,           (optional) also read through real text/binary files
                   "codecs": [codec, ...]}} (optional) also read through text-mode file objects with
                                            these codecs (skipped if the codec cannot express the text)
   or  {"kind": "aligned", "unit": u, "n": paragraphs, "target": place, "measure": "bytes"|"chars",
        "codecs": [...]}                    a big plain document, see "big documents" below
   or  {"kind": "many", "n": paragraphs, "fields": k, "conts": c,
        "comments": [[pos, text], ...], "armor": null | {...}, "layout": {...}}
                                            a document of n paragraphs of k fields each, the second
                                            field (the only one if k = 1) with c continuation lines;
                                            comments, armor (as in "paras") apply to every paragraph;
                                            see "many paragraphs" below

Every paragraph is built by assignment into an empty ``Deb822`` and dumped.  If the case lists
refused assignments the paragraph is built a second time by a caller who, in between, tries to
assign values that ``Deb822`` refuses (a value ending in a newline, holding an empty line, or with
a second line that does not start with a blank - to a name the paragraph never gets, to a field
assigned before, to a field assigned afterwards), catches the ``ValueError`` and carries on: that
object must hold and dump exactly what the first one does, and it is the one used from then on.

If the case lists dumps with parameters, the finished paragraph is first dumped that way, call by
call, into a collecting file object: ``dump(fd, encoding=codec)`` (binary; codecs without a byte
order mark) or ``dump(fd, text_mode=True)``, into an fd that takes everything or one whose k-th
``write()`` raises OSError.  A call that returns must have written the text of ``dump()`` in that
codec; a call may raise UnicodeEncodeError only when the codec cannot express the text (documented
in ``dump``), and the fd's own OSError comes back to the caller, who catches either and carries on.
After these calls - as after every other step - the paragraph must dump the same text in every way
it offers: ``dump()``, ``str(p)``, ``dump(fd, text_mode=True)``, and in UTF-8 ``dump(fd)`` and ``bytes(p)``.

Two documents are assembled from the dumps: the *plain* one (dumps joined by one empty line) and the *full* one
(the case's layout, comment lines and clearsign armor all applied).  Each document is presented
in eight input forms (plus real files, plus text-mode file objects in other codecs) to
``Deb822.iter_paragraphs`` and, if it has one paragraph, to the constructors of ``Deb822``,
``Dsc`` and ``Changes``.  The lines of a document end in LF or, if the layout says so, in CR LF
(all of them or some of them); the forms that keep terminators (lists of lines with newlines,
StringIO, BytesIO, binary files, and additionally text layers opened with ``newline=''``) then hand
CR LF to the reader, the others (str, bytes, lists without newlines, default text layers) do not.
Every file-object form is also handed over *advanced*: the lines before
the first paragraph, or everything up to the gap before the last paragraph, already taken with
``readline()``; the reader must then find the remaining paragraphs.  Every reading must give the
generated ``[name, first.strip(blanks) + continuation lines verbatim]`` lists, in order, without a
warning.
"""
import io
import itertools
import os
import re
import shutil
import tempfile
import warnings

from hypothesis import strategies as st

from ..core import Violation, Enum, Hyp, short
from ..gen import c02_deb822text as G

from debian.deb822 import Deb822, Dsc, Changes

ID = "C02"
LEVEL = "exploration"
RULE = ("a case is a document of 1..4 paragraphs x 1..5 fields (Policy-valid names distinct ignoring "
        "case; values = first line of printable text/TAB with any blanks around it + 0..3 continuation "
        "lines starting with a blank and holding non-blank text) plus a configuration: comment lines at "
        "chosen or at all line boundaries, free-standing comment blocks between paragraphs, synthetic "
        "clearsign armor per paragraph (in a third of them with comment lines directly in front of the armor "
        "header line), LF or - four cases in nine - CR LF line terminators (on all lines or mixed with LF; "
        "then also read through text layers opened with newline=''), in a third of the paragraphs 1..3 "
        "assignments that must be refused (value ending in a newline / with an empty line / with an unindented "
        "second line, for a name never assigned, assigned before or assigned afterwards, by d[k] = v or "
        "d.update) attempted while the paragraph is built, the ValueError caught and the object used as if "
        "nothing had happened, in a third of the paragraphs 1..3 calls dump(fd, encoding=ascii / ISO-8859-1 / -15 / "
        "cp1252 / UTF-8 / UTF-16-LE / -BE / UTF-32-BE / not given) or dump(fd, text_mode=True), one in three into an "
        "fd whose first, second or third write() raises OSError, made before the paragraph is used (a call that "
        "returns must have written dump() in that codec; UnicodeEncodeError only if the codec cannot express the "
        "text; either error is caught and the object used as if nothing had happened), every paragraph then "
        "dumped by dump(), str(), bytes(), dump(fd) and dump(fd, text_mode=True) - also after a field has been "
        "deleted - which must all give one text, leading/trailing/multiple blank lines (in half of the cases some of "
        "them hold SPACE/TAB), final newline or not; "
        "each case is read plain and fully configured in 8 input forms (str, bytes, list of lines with "
        "and without newline, list of bytes lines, StringIO, BytesIO, TextIOWrapper) by iter_paragraphs "
        "and, for one paragraph, by Deb822/Dsc/Changes constructors (one case in eight also through real "
        "text and binary files; eight in eleven also through a text-mode file object in UTF-16/-32, UTF-8 "
        "with BOM, ISO-8859-1/-15 or cp1252); each file object is also handed over after readline() has "
        "taken the leading lines or all paragraphs but the last; what was read is dumped and read once "
        "more. Enumerated: 21 boundary first "
        "lines x all sequences of 0..2 of 16 boundary continuation lines, commented at every line boundary "
        "and armored; every legal field-name character in first and later position; every gap layout of "
        "0..2 leading and 1..3 separating lines from {empty, SPACE, TAB}, plain and clearsigned; 357 boundary values "
        "in clearsigned, fully commented paragraphs with CR LF (or alternating CR LF / LF) terminators; 72 placements "
        "of one refused assignment in a three-field paragraph; 270 single dumps with parameters (5 value classes "
        "x 9 encodings x binary/text x fd sound / failing at once / failing at the third write) and 162 ordered "
        "pairs of them, with a second paragraph built afterwards; big documents "
        "(140 KiB - 1 MiB) whose line ends, separator lines, line middles or character middles lie on every "
        "multiple of 4096 / 1024 (thorough: also 1000, 5000, 8192) bytes or characters, read in all forms "
        "including real files and a UTF-16 text file; documents whose size is a count, not a length: 1000, 3000 "
        "and 20000 short paragraphs (plain, with blank-line runs, with comment blocks between and comment lines "
        "inside the paragraphs, with CR LF, every paragraph clearsigned), 1000..5000 fields in one paragraph, "
        "1000..20000 continuation lines in one value (thorough: 20000 paragraphs in every configuration, 20000 "
        "fields, 100000 continuation lines), built, dumped, assembled and read in all forms like any other case. "
        "Non-trivial = at least one multi-line value or at least two paragraphs; distinct = "
        "distinct canonical JSON of the case")
ASSUMPTIONS = [
    "expected values are computed from the generated data only: first line stripped of SPACE/TAB, "
    "continuation lines verbatim (no model of the parser)",
    "documents are assembled by the harness from the library's own dump() of each paragraph, split at "
    "LF; comment lines, armor and blank lines are inserted between those lines",
    "clearsign armor is synthetic (no signature is made or verified); field and continuation lines never "
    "start with '-', so no dash-escaping is involved",
    "Dsc/Changes readers are not applied when the document starts with a free-standing comment block "
    "(observed: Dsc(lines) then returns an empty paragraph - outside the stated configurations)",
    "lines made of SPACE/TAB only count as blank lines between, before and after paragraphs (class "
    "documentation of Deb822: 'whitespace-separates-paragraphs', default True); they are only put into the "
    "gaps of the layout, never inside a clearsigned payload or between armor headers and payload",
    "text-mode file objects in a codec other than UTF-8 are given to iter_paragraphs and Deb822 as they are; "
    "Dsc/Changes get them only for single-byte codecs and together with encoding=<that codec> (observed on "
    "the unchanged tree: _gpg_multivalued re-encodes every line with the file's codec and decodes with the "
    "encoding argument, default UTF-8, so Dsc(open(p, encoding='iso-8859-15')) mis-decodes and a UTF-16 file "
    "cannot work at all - reported, not asserted)",
    "CR LF is a line terminator of the input forms, not part of a value: the library removes b'\\r\\n' from "
    "every line on purpose and every reading of the unchanged tree agrees (probed in all forms, all four readers, "
    "with comments and armor); a CR alone is never generated (str.splitlines and binary files disagree about it)",
    "comment lines directly in front of the armor header line (no blank line in between) belong to the "
    "paragraph's configuration 'comments interleaved'; Dsc/Changes read such documents in every form on the "
    "unchanged tree (the comment block followed by a blank line remains excluded for them, see above); no "
    "comment line is put between armor header lines or inside the signature block",
    "refused assignments: only the error path is used here - an attempt that raises ValueError must leave no "
    "trace in keys(), items() and dump(); that the ValueError is raised at all is property C08's claim, a case "
    "in which an attempt is accepted is labelled 'unrefused-attempt-not-judged' and the object dropped",
    "dumps with parameters: the paragraphs are made by Deb822(), whose own encoding is UTF-8 (documented "
    "default), so dump(fd) and bytes(p) must give dump().encode('utf-8'); the expected bytes of dump(fd, "
    "encoding=c) are dump().encode(c) computed by Python's codec, and whether c 'can support all the "
    "characters' is whether that raises; only codecs without a byte order mark are used (observed on the "
    "unchanged tree: dump(fd, encoding='utf-16') encodes field by field and so writes a BOM in front of every "
    "field - not asserted, the library cannot read UTF-16 bytes back either); what a refused or interrupted "
    "call has written to its fd before the error is not judged",
    "a file object from which k lines have been taken with readline() stands at line k (io module semantics); "
    "the reader is expected to go on from there",
    "the geometry of the big documents (which offset a line end falls on) is computed assuming that dump() "
    "writes 'Name: value' lines; the label 'aligned:...' is only given when the assembled document really has "
    "the chosen place on every multiple of the unit (else 'alignment-lost'); the expected reading does not depend on it",
    "the number of paragraphs in a document, of fields in a paragraph and of continuation lines in a value is "
    "not bounded by the statement ('documents of 1..n paragraphs'); the counts used (up to 20000 paragraphs / "
    "fields, 100000 lines; Packages files of Debian have 60000+ paragraphs) are read by the unchanged tree in "
    "every form; such a document is written in the case as counts and expanded by the harness into numbered "
    "paragraphs 'Package: pkg-<i>', 'Field-<j>: value <i>.<j>' with numbered continuation lines",
    "a RecursionError whose traceback passes through the library is reported as a violation like any other "
    "exception from the library (the engine alone would call it a harness error): the harness does not recurse "
    "and Python's default recursion limit (1000) is what a caller of the library runs with",
    "Hypothesis 6.168 generators; sha1 for distinctness",
]
_EXH = ("21 boundary first lines x every sequence of 0..2 continuation lines from 16 boundary lines "
        "(5 733 values) in a two-field paragraph, comments at every line boundary, armored; every legal "
        "first character of a field name (91) and every legal later character (93) in small documents")
_EXH_GAPS = ("every gap layout of a two-paragraph document with 0..2 leading and 1..3 separating blank lines, "
             "each line empty, one SPACE or one TAB (13 x 39), plain and clearsigned; one paragraph with 1..2 "
             "such leading and 2 trailing lines (12 x 9), plain and clearsigned")
_EXH_EOL = ("21 boundary first lines x every sequence of 0..1 continuation lines from 16 boundary lines (357 values) in "
            "a two-field clearsigned paragraph whose lines all end in CR LF, or alternately in CR LF and LF, with a "
            "comment line at every line boundary and in front of the armor header line (714 documents)")
_EXH_REFUSED = ("one refused assignment at each of the 4 places of a three-field paragraph x 3 kinds of spoilt value x "
                "key never assigned / assigned before / assigned afterwards x d[k] = v / d.update (72 cases)")
_EXH_DUMPS = ("a three-field paragraph whose multi-line middle value is pure ASCII / needs ISO-8859-1 / needs "
              "ISO-8859-15 or cp1252 / a 3-byte / a 4-byte UTF-8 character x one dump(fd) with each of 8 codecs or none x "
              "binary / text_mode x fd sound / refusing the first / the third write (270); for the second and third "
              "value every ordered pair of such binary dumps (162), a second paragraph built and dumped afterwards")
_EXH_BIG = ("documents of 36 paragraphs x 4096 and of 140 paragraphs x 1024 bytes (or characters) in which every "
            "multiple of that unit lies at one of 8 chosen places of a paragraph (behind the separator line, behind "
            "the first field, behind the first line of a multi-line value, between and behind continuation lines, "
            "behind the last field, inside a line, inside a 4-byte character): 30 documents of 140-144 KiB")
_EXH_BIG_T = _EXH_BIG + "; the same for units of 1000 and 5000 (140-150 KiB) and 8192 (1 MiB): 75 documents"
_EXH_MANY = ("documents of 1000 and of 3000 two-field paragraphs (one continuation line each) in 5 configurations: "
             "plain (also real files and a UTF-16 text file); runs of 1..3 blank lines, some holding SPACE/TAB, between, "
             "before and behind the paragraphs; a comment block between the paragraphs and at the start plus 3 comment "
             "lines inside every paragraph (also real files); CR LF terminators without a final newline; every paragraph "
             "clearsigned with comment lines inside and in front of the armor; 20000 such paragraphs plain; paragraphs "
             "of 1000, 1200, 3000 (two of them) and 5000 fields; values of 1000, 1200, 5000 (in one and in three "
             "paragraphs) and 20000 continuation lines, spread over the same configurations (21 documents)")
_EXH_MANY_T = _EXH_MANY + ("; 20000 paragraphs in the other four configurations, 20000 fields in one paragraph (plain, "
                           "commented), 100000 continuation lines in one value (plain, clearsigned), 300 paragraphs x "
                           "30 fields x 30 continuation lines (30 documents)")
EXHAUSTIVE = {"quick": "; ".join([_EXH, _EXH_GAPS, _EXH_EOL, _EXH_REFUSED, _EXH_DUMPS, _EXH_BIG, _EXH_MANY]),
              "thorough": "; ".join([_EXH, _EXH_GAPS, _EXH_EOL, _EXH_REFUSED, _EXH_DUMPS, _EXH_BIG_T, _EXH_MANY_T])}
BUDGET = {"quick": 200, "thorough": 1500}

BEGIN_MSG = "-----BEGIN PGP SIGNED MESSAGE-----"
BEGIN_SIG = "-----BEGIN PGP SIGNATURE-----"
END_SIG = "-----END PGP SIGNATURE-----"
ARMOR_HEADERS = ["Hash: SHA1", "Hash: SHA256", "Hash: SHA512", "Charset: UTF-8",
                 "NotDashEscaped: You need GnuPG to verify this message"]
SIG_HEADERS = ["Version: GnuPG v1.4.3 (GNU/Linux)", "Comment: Signed by Adeodato Simó <dato@net.com.org.es>",
               "Comment: a: b"]
# codecs of text-mode file objects (besides UTF-8); the single-byte ones cannot express every document
CODECS = ["utf-16", "utf-16-le", "utf-16-be", "utf-32", "utf-8-sig", "iso-8859-15", "cp1252", "iso-8859-1"]
SINGLE_BYTE = frozenset(["iso-8859-15", "cp1252", "iso-8859-1"])
# line terminators of a document: the layout's "eols" list is cycled over the lines
EOLS = ("\n", "\r\n")
# assignments that a paragraph must refuse (ValueError), made while it is being built
REFUSED_KINDS = ("trailing-newline", "empty-line", "unindented-continuation")
REFUSED_KEYS = ("new", "existing", "later")
REFUSED_VIA = ("setitem", "update")
# dump(fd, encoding=...): codecs that encode piecewise without a byte order mark; None = not given
DUMP_CODECS = ["ascii", "iso-8859-1", "iso-8859-15", "cp1252", "utf-8", "utf-16-le", "utf-16-be", "utf-32-be"]
_header_re = re.compile(r"^[A-Za-z]+: \S.*$")
_b64_re = re.compile(r"^[A-Za-z0-9+/=]+$")


# ------------------------------------------------------------------------------------------
# case validation (a replay file may contain anything)


def _is_int(x, lo, hi):
    return isinstance(x, int) and not isinstance(x, bool) and lo <= x <= hi


def _comment_texts(xs):
    return isinstance(xs, list) and all(isinstance(t, str) and G.is_text(t, "\t") for t in xs)


def valid_armor(a):
    if a is None:
        return True
    return (isinstance(a, dict)
            and isinstance(a.get("headers"), list) and all(isinstance(h, str) and _header_re.match(h) and G.is_text(h) for h in a["headers"])
            and isinstance(a.get("sig_headers"), list) and all(isinstance(h, str) and _header_re.match(h) and G.is_text(h) for h in a["sig_headers"])
            and isinstance(a.get("sig"), list) and all(isinstance(l, str) and _b64_re.match(l) for l in a["sig"])
            and isinstance(a.get("gap"), bool)
            and isinstance(a.get("trail"), str) and a["trail"].strip(" \t") == ""
            and _comment_texts(a.get("pre", [])))


def valid_refused(r):
    return (isinstance(r, dict) and _is_int(r.get("at"), 0, 10 ** 6) and r.get("key") in REFUSED_KEYS
            and _is_int(r.get("index"), 0, 10 ** 6) and r.get("kind") in REFUSED_KINDS
            and r.get("via", "setitem") in REFUSED_VIA)


def valid_dump(s):
    return (isinstance(s, dict) and (s.get("encoding") is None or s.get("encoding") in DUMP_CODECS)
            and isinstance(s.get("text_mode", False), bool)
            and (s.get("fail_at") is None or _is_int(s.get("fail_at"), 0, 64)))


class WriteFailed(OSError):
    """What the caller's file object raises when it cannot take a write()."""


class CollectingFd(object):
    """A caller's file object: keeps what it is given; its k-th write() (from 0) may fail."""

    def __init__(self, fail_at=None):
        self.parts, self.fail_at = [], fail_at

    def write(self, data):
        if self.fail_at is not None and len(self.parts) >= self.fail_at:
            self.fail_at = 0               # and it stays broken
            raise WriteFailed(28, "No space left on device")
        self.parts.append(data)
        return len(data)

    def flush(self):
        pass


def dump_with_parameters(d, spec, text):
    """One dump(fd, ...) as the case asks for: 'written' | 'refused' | 'write-failed'.

    ``text`` is what dump() gave before.  A call that returns must have written exactly that
    text (in the codec asked for); UnicodeEncodeError is the documented answer when the codec
    cannot express it, and only then.
    """
    codec, text_mode = spec.get("encoding"), bool(spec.get("text_mode", False))
    kw = {}
    if codec is not None:
        kw["encoding"] = codec
    if text_mode:
        kw["text_mode"] = True
    call = "dump(fd%s)" % "".join(", %s=%r" % kv for kv in sorted(kw.items()))
    effective = codec or "utf-8"           # the paragraph was made by Deb822(): UTF-8
    try:
        text.encode(effective)
        expressible = True
    except UnicodeEncodeError:
        expressible = False
    fd = CollectingFd(spec.get("fail_at"))
    try:
        ret = d.dump(fd, **kw)
    except WriteFailed:
        return "write-failed"              # the fd's own error comes back to the caller
    except UnicodeEncodeError as e:
        if text_mode or expressible:
            raise Violation("dump-parameters/UnicodeEncodeError-for-expressible-text",
                            "%s of the paragraph that dumps as %s raised %s" % (call, short(text, 300), e))
        return "refused"
    want_type = str if text_mode else bytes
    if ret is not None or not all(isinstance(x, want_type) for x in fd.parts):
        raise Violation("dump-parameters/wrong-kind-of-data", "%s returned %s and wrote %s"
                        % (call, short(ret), short(fd.parts, 300)))
    if text_mode:
        written = "".join(fd.parts)
    else:
        try:
            written = b"".join(fd.parts).decode(effective)
        except UnicodeDecodeError:
            written = None
    if written != text:
        raise Violation("dump-parameters/written-text-differs",
                        "%s wrote %s, which is %s; dump() gave %s%s"
                        % (call, short(fd.parts, 300), short(written, 300), short(text, 300),
                           "" if expressible or text_mode else " (the codec cannot express it: UnicodeEncodeError is documented)"))
    return "written"


def dumped_every_way(d, text, sig, when):
    """Normal use: every way of dumping the paragraph must give ``text`` (in UTF-8 where it is bytes)."""
    got = {}
    try:
        got["dump()"] = d.dump()
        got["str(p)"] = str(d)
        tio, bio = io.StringIO(), io.BytesIO()
        d.dump(tio, text_mode=True)
        got["dump(fd, text_mode=True)"] = tio.getvalue()
        d.dump(bio)
        got["dump(fd)"] = bio.getvalue()
        got["bytes(p)"] = bytes(d)
    except UnicodeError as e:
        raise Violation(sig, "%s: %s raised after %s had worked; expected text %s"
                        % (when, short(repr(e), 200), short(sorted(got)), short(text, 300)))
    raw = text.encode("utf-8")
    for how in ("dump()", "str(p)", "dump(fd, text_mode=True)", "dump(fd)", "bytes(p)"):
        if got[how] != (raw if how in ("dump(fd)", "bytes(p)") else text):
            raise Violation(sig, "%s: %s gives %s, expected %s of %s"
                            % (when, how, short(got[how], 300),
                               "the UTF-8 bytes" if how in ("dump(fd)", "bytes(p)") else "the text", short(text, 300)))


def refused_plan(fields, refused, ordered=True):
    """[(number of fields assigned before the attempt, key, value that must be refused, via, kind of key)]

    ``at`` is taken modulo len(fields) + 1.  The key is a name that the paragraph never gets
    ("new"), a field that has been assigned already ("existing") or one that will be assigned
    afterwards ("later"); without such a field it is a new name.  The value is a legal value
    of the domain spoilt in one way: a newline appended, an empty line put in, or a second line
    that does not start with a blank.
    """
    names = set(n.lower() for n, _ in fields)
    plan = []
    for j, r in enumerate(refused):
        at = r["at"] % (len(fields) + 1)
        pool = {"existing": fields[:at], "later": fields[at:], "new": []}[r["key"]]
        if pool:
            key, v = pool[r["index"] % len(pool)]
            base = G.value_string(v)
        else:
            key = "X-Refused-%d" % j
            while key.lower() in names:
                key += "x"
            base = "refused"
        first = base.split("\n")[0]
        bad = {"trailing-newline": base + "\n",
               "empty-line": first + "\n\n second",
               "unindented-continuation": first + "\nInjected: yes"}[r["kind"]]
        plan.append((at, key, bad, r.get("via", "setitem"), r["key"] if pool else "new"))
    if ordered:
        plan.sort(key=lambda t: t[0])      # stable: attempts at the same place keep their order
    return plan


def build_paragraph(fields, plan=()):
    """(the Deb822 built by assignment, number of attempts that were not refused)"""
    d = Deb822()
    accepted = 0

    def attempts(at):
        n = 0
        for a, key, bad, via, _ in plan:
            if a != at:
                continue
            try:
                if via == "update":
                    d.update({key: bad})
                else:
                    d[key] = bad
                n += 1
            except ValueError:
                pass                        # the caller catches the error and carries on
        return n

    for i, (n, v) in enumerate(fields):
        accepted += attempts(i)
        try:
            d[n] = G.value_string(v)
        except ValueError as e:
            raise Violation("assignment-rejected", "d[%r] = %r raised ValueError(%s)" % (n, G.value_string(v), e))
    accepted += attempts(len(fields))
    return d, accepted


def valid_case(case):
    if not (isinstance(case, dict) and isinstance(case.get("paras"), list) and case["paras"]
            and isinstance(case.get("layout"), dict)):
        return False
    for p in case["paras"]:
        if not (isinstance(p, dict) and G.valid_fields(p.get("fields")) and valid_armor(p.get("armor"))):
            return False
        cs = p.get("comments")
        if not (isinstance(cs, list) and all(isinstance(c, list) and len(c) == 2 and _is_int(c[0], 0, 10 ** 6)
                                             for c in cs) and _comment_texts([c[1] for c in cs])):
            return False
        rs = p.get("refused", [])
        if not (isinstance(rs, list) and len(rs) <= 16 and all(valid_refused(r) for r in rs)):
            return False
        ds = p.get("dumps", [])
        if not (isinstance(ds, list) and len(ds) <= 16 and all(valid_dump(x) for x in ds)):
            return False
    lay = case["layout"]
    if not (_is_int(lay.get("lead"), 0, 5) and _is_int(lay.get("trail"), 0, 5)
            and isinstance(lay.get("final_newline"), bool) and _comment_texts(lay.get("lead_free"))
            and isinstance(lay.get("seps"), list) and isinstance(lay.get("files", False), bool)):
        return False
    ws = lay.get("ws", [])
    if not (isinstance(ws, list) and len(ws) <= 32
            and all(isinstance(b, str) and len(b) <= 8 and b.strip(G.BLANKS) == "" for b in ws)):
        return False
    codecs = lay.get("codecs", [])
    if not (isinstance(codecs, list) and all(isinstance(c, str) and c in CODECS for c in codecs)):
        return False
    eols = lay.get("eols", ["\n"])
    if not (isinstance(eols, list) and 1 <= len(eols) <= 8 and all(e in EOLS for e in eols)):
        return False
    for s in lay["seps"]:
        if not (isinstance(s, dict) and _is_int(s.get("blank"), 1, 5) and _is_int(s.get("blank2"), 1, 5)
                and _comment_texts(s.get("free"))):
            return False
    return True


# ------------------------------------------------------------------------------------------
# big documents with line ends at chosen offsets
#
# case = {"kind": "aligned", "unit": u, "n": paragraphs, "target": one of ALIGN_TARGETS,
#         "measure": "bytes" | "chars", "codecs": [...]}
# stands for the plain document of n four-field paragraphs in which a padding value makes every
# paragraph plus its separator line exactly u bytes (or characters) long and the first paragraph is
# shortened so that, from the second paragraph on, the chosen place of *every* paragraph lies on a
# multiple of u.  A reader that works on blocks of u * 2^k has each of its block boundaries there.

ALIGN_TARGETS = ["after-separator", "after-first-field", "after-first-line-of-multi-line-value",
                 "between-continuation-lines", "after-last-continuation-line", "after-last-field",
                 "mid-line", "mid-character"]
_ALIGN_CONT = [" continuation \u6f22 one", "\tcontinuation two "]


def _aligned_fields(i, padlen):
    return [["Package", ["pkg-%04d" % i, []]],
            ["Pad", ["x" * padlen, []]],
            ["Description", ["\xe9 short", list(_ALIGN_CONT)]],
            ["Tail", ["\U0001d4b3 %04d" % i, []]]]


def _aligned_geometry(spec):
    """(pad length of the first paragraph, of the others) or None if the unit is too small."""
    size = (lambda t: len(t.encode("utf-8"))) if spec["measure"] == "bytes" else len
    # the lines "Name: value" a paragraph is expected to be dumped as (only the alignment, not
    # the expected reading, depends on this)
    lines = ["%s: %s" % (n, G.value_string(v)) for n, v in _aligned_fields(0, 0)]
    lines = [l for f in lines for l in f.split("\n")]            # 6 lines: 0 Package 1 Pad 2 Description 3,4 cont 5 Tail
    upto = [0]
    for l in lines:
        upto.append(upto[-1] + size(l) + 1)
    fixed = upto[-1] + 1                                         # + the separator line
    unit = spec["unit"]
    pad = unit - fixed
    if pad < 1:
        return None
    off = {"after-separator": 0, "after-first-field": upto[1], "mid-line": upto[1] + 5 + pad // 2,
           "after-first-line-of-multi-line-value": upto[3] + pad, "between-continuation-lines": upto[4] + pad,
           "after-last-continuation-line": upto[5] + pad, "after-last-field": upto[6] + pad,
           "mid-character": upto[5] + pad + 6 + 2}[spec["target"]]
    pad0 = (-off) % unit - fixed
    while pad0 < 1:
        pad0 += unit
    return pad0, pad


def valid_aligned(spec):
    return (_is_int(spec.get("unit"), 128, 1 << 20) and _is_int(spec.get("n"), 2, 2000)
            and spec["unit"] * spec["n"] <= 1 << 21 and spec.get("target") in ALIGN_TARGETS
            and spec.get("measure") in ("bytes", "chars")
            and not (spec["measure"] == "chars" and spec["target"] == "mid-character")
            and isinstance(spec.get("codecs", []), list) and all(c in CODECS for c in spec.get("codecs", []))
            and _aligned_geometry(spec) is not None)


def expand_aligned(spec):
    pad0, pad = _aligned_geometry(spec)
    paras = [{"fields": _aligned_fields(i, pad if i else pad0), "comments": [], "armor": None}
             for i in range(spec["n"])]
    return {"paras": paras, "layout": dict(PLAIN_LAYOUT, files=True, codecs=list(spec.get("codecs", [])))}


def aligned_as_specified(spec, text):
    """Does the assembled document really have the chosen place on every multiple of the unit?"""
    data = text.encode("utf-8") if spec["measure"] == "bytes" else text
    nl, unit = ("\n".encode() if spec["measure"] == "bytes" else "\n"), spec["unit"]
    marks = list(range(2 * unit, len(data), unit))
    if not marks:
        return False
    t = spec["target"]
    for m in marks:
        before, after = data[m - 1:m], data[m:m + 1]
        if t in ("mid-line", "mid-character"):
            ok = before != nl and after != nl
            if t == "mid-character":
                ok = ok and (data[m] & 0xC0) == 0x80
        elif t == "after-separator":
            ok = data[m - 2:m] == nl + nl
        elif t == "after-last-field":
            ok = before == nl and after == nl
        else:
            ok = before == nl and after != nl and data[m - 2:m - 1] != nl
        if not ok:
            return False
    return True


# ------------------------------------------------------------------------------------------
# many paragraphs, many fields, many continuation lines
#
# case = {"kind": "many", "n": paragraphs, "fields": k, "conts": c, "comments": [[pos, text], ...],
#         "armor": null | {...}, "layout": {...}}
# stands for the document of n short paragraphs, each of k fields ("Package: pkg-<i>", then
# "Field-<j>: value <i>.<j>"), in which the second field (the only one if k = 1) has c continuation
# lines; the comment lines and the armor are those of *every* paragraph, the layout is an ordinary
# layout (its separators - blank-line runs, free-standing comment blocks - are cycled over the
# gaps).  The sizes are written as counts, so that the case stays small; everything else (how the
# paragraphs are built, dumped, assembled, read and compared) is what is done for any other case.

MANY_LIMIT = 400000          # lines of payload a case may ask for
_MANY_CONT = [" continuation line %d", "\tcontinuation line %d: x", " .", " # %d 漢"]


def _many_fields(i, k, c):
    fields = [["Package", ["pkg-%d" % i, []]]]
    fields += [["Field-%d" % j, ["value %d.%d" % (i, j), []]] for j in range(1, k)]
    if c:
        fields[min(1, k - 1)][1][1] = [_MANY_CONT[x % len(_MANY_CONT)].replace("%d", str(x)) for x in range(c)]
    return fields


def valid_many(spec):
    return (_is_int(spec.get("n"), 1, MANY_LIMIT) and _is_int(spec.get("fields"), 1, MANY_LIMIT)
            and _is_int(spec.get("conts"), 0, MANY_LIMIT)
            and spec["n"] * (spec["fields"] + spec["conts"]) <= MANY_LIMIT
            and isinstance(spec.get("comments", []), list) and len(spec.get("comments", [])) <= 16
            and isinstance(spec.get("layout"), dict))


def expand_many(spec):
    comments, armor = spec.get("comments", []), spec.get("armor")
    paras = [{"fields": _many_fields(i, spec["fields"], spec["conts"]), "comments": comments, "armor": armor}
             for i in range(spec["n"])]
    return {"paras": paras, "layout": spec["layout"]}


# ------------------------------------------------------------------------------------------
# document assembly


def _interleave(lines, comments):
    if not comments:
        return list(lines)
    buckets = [[] for _ in range(len(lines) + 1)]
    for pos, text in comments:
        buckets[pos % (len(lines) + 1)].append("#" + text)
    out = []
    for i, l in enumerate(lines):
        out.extend(buckets[i])
        out.append(l)
    out.extend(buckets[len(lines)])
    return out


def _wrap(payload, a):
    tr = a["trail"]
    return ([BEGIN_MSG + tr] + list(a["headers"]) + [""] + payload + ([""] if a["gap"] else [])
            + [BEGIN_SIG + tr] + list(a["sig_headers"]) + [""] + list(a["sig"]) + [END_SIG + tr])


def assemble(case, para_lines, layout=True, comments=True, armor=True):
    """(list of lines without terminators, final newline?, cuts) for the chosen features.

    ``cuts`` lists ``(k, skipped)``: a reader that is handed the document from line k on (a file
    object from which k lines have been taken with readline()) has to find paragraphs[skipped:].
    """
    lay = case["layout"]
    ws = lay.get("ws") or [""]
    used = [0]

    def blanks(n):
        # the k-th blank line the layout inserts is ws[k % len(ws)]: empty or SPACE/TAB only
        if not layout:
            return [""] * n
        out = [ws[(used[0] + j) % len(ws)] for j in range(n)]
        used[0] += n
        return out

    doc = []
    cuts = []
    if layout:
        doc += blanks(lay["lead"])
    if comments and lay["lead_free"]:
        doc += ["#" + t for t in lay["lead_free"]] + blanks(1)
    if doc:
        cuts.append((len(doc), 0))
    for i, p in enumerate(case["paras"]):
        if i > 0:
            if i == len(case["paras"]) - 1:
                cuts.append((len(doc), i))
            sep = lay["seps"][(i - 1) % len(lay["seps"])] if lay["seps"] else None
            doc += blanks(sep["blank"] if (sep and layout) else 1)
            if sep and comments and sep["free"]:
                doc += ["#" + t for t in sep["free"]] + blanks(sep["blank2"] if layout else 1)
        pl = _interleave(para_lines[i], p["comments"]) if comments else list(para_lines[i])
        if armor and p["armor"] is not None:
            pl = _wrap(pl, p["armor"])
            if comments:
                # comment lines directly in front of the armor header line
                pl = ["#" + t for t in p["armor"].get("pre", [])] + pl
        doc += pl
    final_newline = lay["final_newline"] if layout else True
    if layout and final_newline:
        doc += blanks(lay["trail"])
    return doc, final_newline, cuts


class TmpFiles(object):
    """Real files for the 'file object' input forms; one private directory per check() call."""

    def __init__(self, enabled):
        self.enabled, self.dir, self.opened, self.n = enabled, None, [], 0

    def __enter__(self):
        if self.enabled:
            self.dir = tempfile.mkdtemp(prefix="vcheck-c02-")
        return self

    def store(self, raw):
        self.n += 1
        path = os.path.join(self.dir, "doc%d" % self.n)
        with open(path, "wb") as f:
            f.write(raw)
        return path

    def open(self, path, binary, codec="utf-8", newline=None):
        f = open(path, "rb") if binary else open(path, "r", encoding=codec, newline=newline)
        self.opened.append(f)
        return f

    def __exit__(self, *exc):
        for f in self.opened:
            f.close()
        if self.dir:
            shutil.rmtree(self.dir, ignore_errors=True)
        return False


def terminated(lines, final_newline, eols=("\n",)):
    """The lines with their terminators: line k ends in eols[k % len(eols)], the last one in
    nothing if there is no final newline."""
    out = [l + eols[k % len(eols)] for k, l in enumerate(lines)]
    if not final_newline and out:
        out[-1] = lines[-1]
    return out


def forms(lines, final_newline, tmp=None, codecs=(), eols=("\n",)):
    """[(name, factory, is a file object?, codec of a non-UTF-8 text layer or None)]"""
    with_nl = terminated(lines, final_newline, eols)
    text = "".join(with_nl)
    raw = text.encode("utf-8")
    raw_nl = [l.encode("utf-8") for l in with_nl]
    out = [
        ("str", lambda: text, False, None),
        ("bytes", lambda: raw, False, None),
        ("lines+nl", lambda: list(with_nl), False, None),
        ("lines", lambda: list(lines), False, None),
        ("byteslines+nl", lambda: list(raw_nl), False, None),
        ("StringIO", lambda: io.StringIO(text), True, None),
        ("BytesIO", lambda: io.BytesIO(raw), True, None),
        ("TextIOWrapper", lambda: io.TextIOWrapper(io.BytesIO(raw), encoding="utf-8"), True, None),
    ]
    files = tmp is not None and tmp.enabled
    crlf = "\r\n" in eols
    if crlf:
        # a text layer that does not translate line endings hands out the lines as they are
        out.append(("TextIOWrapper/newline=''",
                    lambda: io.TextIOWrapper(io.BytesIO(raw), encoding="utf-8", newline=""), True, None))
    if files:
        path = tmp.store(raw)
        out.append(("text-file", lambda: tmp.open(path, False), True, None))
        out.append(("binary-file", lambda: tmp.open(path, True), True, None))
        if crlf:
            out.append(("text-file/newline=''", lambda: tmp.open(path, False, newline=""), True, None))
    # text-mode file objects whose codec is not UTF-8: the text layer hands out str lines
    for codec in codecs:
        try:
            enc = text.encode(codec)
        except UnicodeEncodeError:
            continue                        # an 8-bit codec that cannot express this document
        out.append(("TextIOWrapper/" + codec,
                    lambda enc=enc, codec=codec: io.TextIOWrapper(io.BytesIO(enc), encoding=codec), True, codec))
        if files:
            cpath = tmp.store(enc)
            out.append(("text-file/" + codec,
                        lambda cpath=cpath, codec=codec: tmp.open(cpath, False, codec), True, codec))
    return out


def _items(p):
    return [[k, v] for k, v in p.items()]


def symptom(expected, got):
    """Coarse root-cause class of a wrong reading (first part of the signature)."""
    def flat(doc):
        return [x[0] for para in doc for x in para]
    try:
        if flat(expected) != flat(got):
            return "fields-lost-or-added"
        if [len(p) for p in expected] != [len(p) for p in got]:
            return "paragraph-boundaries"
        for e, g in zip(expected, got):
            for (_, ev), (_, gv) in zip(e, g):
                if not isinstance(gv, str) or ev.split("\n")[0] != gv.split("\n")[0]:
                    return "first-line"
    except (TypeError, IndexError, ValueError):
        return "malformed-result"
    return "continuation-lines"


def _advanced(make, k):
    """The file object with its first k lines already taken by the caller."""
    f = make()
    for _ in range(k):
        f.readline()
    return f


def read_all(lines, final_newline, expected, single, gpg_classes, tmp=None, codecs=(), cuts=(), eols=("\n",)):
    """All readings of one document that differ from what they must give: [(reader, form, got, want)]."""
    bad = []
    for fname, make, is_file, codec in forms(lines, final_newline, tmp, codecs, eols):
        got = [_items(p) for p in Deb822.iter_paragraphs(make())]
        if got != expected:
            bad.append(("iter_paragraphs", fname, got, expected))
        if single:
            readers = [("Deb822", Deb822, {})]
            if gpg_classes and codec is None:
                readers += [("Dsc", Dsc, {}), ("Changes", Changes, {})]
            elif gpg_classes and codec in SINGLE_BYTE:
                readers += [("Dsc(encoding=)", Dsc, {"encoding": codec}),
                            ("Changes(encoding=)", Changes, {"encoding": codec})]
            for rname, cls, kw in readers:
                got = [_items(cls(make(), **kw))]
                if got != expected:
                    bad.append((rname, fname, got, expected))
        if is_file:
            # a file object is read from where it stands
            for k, skipped in cuts:
                got = [_items(p) for p in Deb822.iter_paragraphs(_advanced(make, k))]
                if got != expected[skipped:]:
                    bad.append(("iter_paragraphs", "%s after %d x readline()" % (fname, k), got, expected[skipped:]))
                if len(expected) - skipped == 1:
                    got = [_items(Deb822(_advanced(make, k)))]
                    if got != expected[skipped:]:
                        bad.append(("Deb822", "%s after %d x readline()" % (fname, k), got, expected[skipped:]))
    return bad


_LIB_DIR = os.path.dirname(os.path.realpath(Deb822.__init__.__code__.co_filename))


def check(case):
    """The oracle; a RecursionError that comes out of the library is a failed reading, not a
    harness problem: a Deb822 document is flat (there is nothing in it to recurse over) and the
    harness itself does not recurse, so only the library can have piled up frames with the
    number of paragraphs, fields or lines."""
    try:
        return _check(case)
    except RecursionError as e:
        where, tb = None, e.__traceback__
        while tb is not None:
            code = tb.tb_frame.f_code
            if os.path.realpath(code.co_filename).startswith(_LIB_DIR + os.sep):
                where = "%s:%s" % (os.path.basename(code.co_filename), code.co_name)
            tb = tb.tb_next
        if where is None:
            raise
        if isinstance(case, dict) and case.get("kind") == "many":
            what = "a document of %s paragraphs x %s fields, %s continuation lines in one value" % (
                case.get("n"), case.get("fields"), case.get("conts"))
        else:
            what = short(case, 300)
        raise Violation("EXC:RecursionError@%s" % where,
                        "RecursionError (innermost library frame %s) while building, dumping or reading %s"
                        % (where, what))


def _check(case):
    spec = many = None
    if isinstance(case, dict) and case.get("kind") == "aligned":
        if not valid_aligned(case):
            return (False, ("invalid-or-out-of-domain-case-skipped",))
        spec, case = case, expand_aligned(case)
    elif isinstance(case, dict) and case.get("kind") == "many":
        if not valid_many(case):
            return (False, ("invalid-or-out-of-domain-case-skipped",))
        many, case = case, expand_many(case)
    if not valid_case(case):
        return (False, ("invalid-or-out-of-domain-case-skipped",))
    paras = case["paras"]
    lay = case["layout"]
    expected = [[[n, G.normalised(v)] for n, v in p["fields"]] for p in paras]

    para_lines = []
    not_refused = 0
    dump_outcomes = []
    for p in paras:
        d, _ = build_paragraph(p["fields"])
        text = d.dump()
        if not isinstance(text, str):
            raise Violation("dump-not-str", "dump() returned %s" % short(text))
        plan = refused_plan(p["fields"], p.get("refused", []))
        if plan:
            # The same paragraph built by a caller who also tries assignments that are refused,
            # catches the ValueError and carries on: it must be the paragraph built without them.
            # (An attempt that is NOT refused is not this property's business: such a case says
            # nothing about the error path and the object is dropped.)
            d2, accepted = build_paragraph(p["fields"], plan)
            not_refused += accepted
            if not accepted:
                text2 = d2.dump()
                if text2 != text or _items(d2) != _items(d) or list(d2.keys()) != list(d.keys()):
                    raise Violation("refused-assignment-leaves-trace",
                                    "paragraph built from %s with the refused attempts %s (fields assigned before, "
                                    "key, value, how) dumps %s and holds %s; without the attempts %s"
                                    % (short(p["fields"], 300), short(plan, 300), short(text2, 300),
                                       short(_items(d2), 300), short(text, 300)))
                d = d2                       # normal use goes on with that object
        # Dumps with parameters, made by a caller who catches the documented UnicodeEncodeError (and
        # the OSError of his own fd) and carries on with the same object.
        for ds in p.get("dumps", []):
            dump_outcomes.append((ds, dump_with_parameters(d, ds, text)))
        if p.get("dumps"):
            dumped_every_way(d, text, "dump-with-parameters-leaves-trace",
                             "after the calls %s on the paragraph" % short(p["dumps"], 300))
        else:
            dumped_every_way(d, text, "dump-fd-differs", "freshly built paragraph")
        # What dump() writes is a function of the paragraph's current fields, whatever was dumped
        # before: take the first field out, dump and re-read, put it back in place, dump again.
        if len(p["fields"]) >= 2:
            n0 = p["fields"][0][0]
            v0 = d[n0]
            del d[n0]
            got = [_items(q) for q in Deb822.iter_paragraphs(d.dump())]
            want = [[[n, G.normalised(v)] for n, v in p["fields"][1:]]]
            if got != want:
                raise Violation("dump-after-edit", "after del d[%r] the dump %s reads %s, expected %s"
                                % (n0, short(d.dump()), short(got), short(want)))
            dumped_every_way(d, d.dump(), "dump-after-edit", "after del d[%r]" % n0)
            d[n0] = v0
            d.order_first(n0)
            if d.dump() != text:
                raise Violation("dump-after-edit", "field %r removed, re-added and moved first: dump %s, "
                                "before %s" % (n0, short(d.dump()), short(text)))
            dumped_every_way(d, text, "dump-after-edit", "field %r removed, re-added and moved first" % n0)
        # ... and whatever name spelling or route a later assignment to an existing field uses:
        # the values of the first two fields are exchanged (both are values of the domain), the
        # dump must re-read as the exchanged paragraph under the original names, and exchanging
        # them back must give the first dump again.
        if len(p["fields"]) >= 2:
            (n0, v0), (n1, v1) = p["fields"][0], p["fields"][1]
            s0, s1 = d[n0], d[n1]
            routes = (("swapcase", str.swapcase), ("lower", str.lower), ("upper", str.upper), ("same", str))
            for how, spell in routes if len(p["fields"]) <= 50 else routes[:1]:
                for a, b, want_v0, want_v1 in ((s1, s0, v1, v0), (s0, s1, v0, v1)):
                    if how == "upper":
                        d.update({spell(n0): a, spell(n1): b})
                    else:
                        d[spell(n0)] = a
                        d[spell(n1)] = b
                    now = d.dump()
                    got = [_items(q) for q in Deb822.iter_paragraphs(now)]
                    want = [[[n0, G.normalised(want_v0)], [n1, G.normalised(want_v1)]]
                            + [[n, G.normalised(v)] for n, v in p["fields"][2:]]]
                    if got != want:
                        raise Violation("dump-after-edit", "after assigning %s and %s to the existing fields %r and "
                                        "%r through the names %r and %r (%s) the dump %s reads %s, expected %s"
                                        % (short(a), short(b), n0, n1, spell(n0), spell(n1),
                                           "update()" if how == "upper" else "d[name] = value",
                                           short(now), short(got), short(want)))
                    dumped_every_way(d, now, "dump-after-edit", "after re-assigning existing fields (%s spelling)" % how)
                if now != text:
                    raise Violation("dump-after-edit", "values of %r and %r exchanged and exchanged back (%s "
                                    "spelling): dump %s, before %s" % (n0, n1, how, short(now), short(text)))
        ls = text.split("\n")
        if ls and ls[-1] == "":
            ls.pop()
        para_lines.append(ls)

    single = len(paras) == 1
    codecs = lay.get("codecs", [])
    eols = lay.get("eols", ["\n"])
    has_comments = bool(lay["lead_free"]) or any(p["comments"] for p in paras) or \
        (len(paras) > 1 and any(s["free"] for s in lay["seps"]))
    has_armor = any(p["armor"] is not None for p in paras)
    pre_armor = any(p["armor"] is not None and p["armor"].get("pre") for p in paras)
    has_comments = has_comments or pre_armor
    plain, plain_nl, plain_cuts = assemble(case, para_lines, False, False, False)
    full, full_nl, full_cuts = assemble(case, para_lines, True, True, True)

    regen = None
    with warnings.catch_warnings(record=True) as caught, TmpFiles(bool(lay.get("files"))) as tmp:
        warnings.simplefilter("always")
        bad0 = read_all(plain, plain_nl, expected, single, True, tmp, codecs, plain_cuts, eols)
        bad1 = []
        if (full, full_nl) != (plain, plain_nl):
            bad1 = read_all(full, full_nl, expected, single, not lay["lead_free"], tmp, codecs, full_cuts, eols)
        if bad0 or bad1:
            scope = _scope(case, para_lines, expected, single, bad0, bad1)
        else:
            scope = None
            # second generation: what was read is itself a paragraph of the domain (normalised values)
            second = "\n".join(p.dump() for p in Deb822.iter_paragraphs("\n".join(plain) + "\n"))
            got2 = [_items(p) for p in Deb822.iter_paragraphs(second)]
            if got2 != expected:
                regen = (second, got2)
    if scope is not None:
        which, bad, lines, nl = ("plain", bad0, plain, plain_nl) if bad0 else ("configured", bad1, full, full_nl)
        rname, fname, got, want = bad[0]
        text = "".join(terminated(lines, nl, eols))
        raise Violation("%s/%s" % (symptom(want, got), scope),
                        "%s document %s read by %s as %s gives %s, expected %s (%d of the readings of this "
                        "document differ: %s)" % (which, _excerpt(text), rname, fname, short(got, 400),
                                                  short(want, 400), len(bad),
                                                  short(sorted(set("%s/%s" % (b[0], b[1]) for b in bad)), 300)))
    if regen is not None:
        raise Violation("%s/second-generation" % symptom(expected, regen[1]),
                        "paragraphs read back, dumped again as %s and re-read give %s, expected %s"
                        % (short(regen[0], 400), short(regen[1], 400), short(expected, 400)))
    if caught:
        w = caught[0]
        raise Violation("warning-emitted", "%s: %s while reading %s" % (
            w.category.__name__, w.message, short("\n".join(full), 300)))

    # ---- labels
    labels = ["paragraphs:%d" % len(paras)]
    vals = [v for p in paras for _, v in p["fields"]]
    names = [n for p in paras for n, _ in p["fields"]]
    multiline = any(v[1] for v in vals)
    if multiline:
        labels.append("multi-line-value")
    if any(v[0].strip(" \t").startswith(":") for v in vals):
        labels.append("value-starts-with-colon")
    if any(v[0].strip(" \t").startswith("#") for v in vals):
        labels.append("value-starts-with-hash")
    if any(v[0].endswith("\t") or any(c.endswith("\t") for c in v[1]) for v in vals):
        labels.append("trailing-tab")
    if any(c != c.rstrip(" \t") for v in vals for c in v[1]):
        labels.append("continuation-trailing-blanks")
    if any(v[0] != v[0].strip(" \t") and v[0].strip(" \t") for v in vals):
        labels.append("first-line-padded")
    if any(":" in c for v in vals for c in v[1]):
        labels.append("colon-in-continuation")
    if any(c.lstrip(" \t").startswith("#") for v in vals for c in v[1]):
        labels.append("hash-led-continuation")
    if any(c[0] == "\t" for v in vals for c in v[1]):
        labels.append("tab-led-continuation")
    if any(v[0].strip(" \t") == "" and v[1] for v in vals):
        labels.append("empty-first-line")
    if any(v[0].strip(" \t") == "" and not v[1] for v in vals):
        labels.append("empty-value")
    if any(ord(ch) > 127 for v in vals for ch in G.value_string(v)):
        labels.append("non-ascii")
    if any(not n[0].isalnum() for n in names):
        labels.append("name-starts-with-punctuation")
    if any("#" in n for n in names):
        labels.append("hash-in-name")
    if has_armor:
        labels.append("armor")
        if any(p["armor"] and p["armor"]["trail"] for p in paras):
            labels.append("armor-trailing-blanks")
        if any(p["armor"] and not p["armor"]["headers"] for p in paras):
            labels.append("armor-without-headers")
        if len(paras) > 1:
            labels.append("armor-in-multi-paragraph")
    if any(p["comments"] for p in paras):
        labels.append("comments-interleaved")
        if has_armor and any(p["comments"] and p["armor"] for p in paras):
            labels.append("comments-inside-armor")
    if lay["lead_free"] or (len(paras) > 1 and any(s["free"] for s in lay["seps"])):
        labels.append("free-comment-block")
    if not lay["final_newline"]:
        labels.append("no-final-newline")
    if lay["lead"]:
        labels.append("leading-empty-lines")
    if len(paras) > 1 and any(s["blank"] > 1 for s in lay["seps"]):
        labels.append("multiple-empty-separator")
    if not has_armor and not has_comments:
        labels.append("plain-only")
    if lay.get("files"):
        labels.append("real-files")
    if pre_armor:
        labels.append("comment-before-armor-header")
    if "\r\n" in eols:
        labels.append("line-terminator:" + ("CRLF" if "\n" not in eols else "CRLF-and-LF-mixed"))
        if multiline:
            labels.append("CRLF+multi-line-value")
    for p in paras:
        for r, step in zip(p.get("refused", []), refused_plan(p["fields"], p.get("refused", []), ordered=False)):
            labels.append("refused-assignment:%s-key/%s/%s" % (step[4], r["kind"], step[3]))
    if not_refused:
        labels.append("unrefused-attempt-not-judged")
    for ds, outcome in dump_outcomes:
        labels.append("dump-parameters:%s/%s/%s" % (
            "text_mode" if ds.get("text_mode") else "binary", ds.get("encoding") or "encoding-not-given", outcome))
    if len(dump_outcomes) > 1:
        labels.append("dump-parameters:several-calls")
    if any(o != "written" for _, o in dump_outcomes):
        labels.append("dump-error-path-then-normal-use")
    gap_ws = [l for l in full if l != "" and l.strip(G.BLANKS) == ""]
    if gap_ws:
        labels.append("whitespace-only-gap-line")
        if has_armor:
            labels.append("whitespace-only-gap-line+armor")
        if full[0] in gap_ws:
            labels.append("whitespace-only-first-line")
    full_text = "\n".join(full)
    for c in codecs:
        try:
            full_text.encode(c)
            labels.append("text-file-codec:" + c)
        except UnicodeEncodeError:
            labels.append("text-file-codec-not-applicable")
    if plain_cuts or full_cuts:
        labels.append("file-object-advanced-by-readline")
    if many is not None:
        for what, count in (("paragraphs", many["n"]), ("fields-in-a-paragraph", many["fields"]),
                            ("continuation-lines-in-a-field", many["conts"])):
            if count >= 1000:
                labels.append("many-%s:%s" % (what, ">=20000" if count >= 20000 else ">=3000" if count >= 3000 else ">=1000"))
    if spec is not None:
        labels.append("big-document")
        labels.append("aligned:%s/%s" % (spec["target"], spec["measure"])
                      if aligned_as_specified(spec, "\n".join(plain) + "\n") else "alignment-lost")
    return (multiline or len(paras) >= 2, labels)


def _excerpt(text):
    return short(text, 400) if len(text) <= 4000 else "of %d characters (%s)" % (len(text), short(text, 200))


def _scope(case, para_lines, expected, single, bad0, bad1):
    """Name the configuration dimension a failure depends on (part of the signature)."""
    def gpg_only(bad):
        return all(b[0].startswith(("Dsc", "Changes")) for b in bad)

    def kind(bad):
        # what the differing readings have in common, from the most general form downwards
        names = [b[1] for b in bad]
        if any(f == "str" for f in names):
            return None
        if all("readline()" in f for f in names):
            return "advanced-file-object"
        if all("/" in f.split(" ")[0] for f in names):
            return "text-file-codec"
        return "form-dependent"
    codecs = case["layout"].get("codecs", [])
    eols = case["layout"].get("eols", ["\n"])
    if "\r\n" in eols:
        # does the same document read well when every line ends in LF?
        lines, nl, cuts = assemble(case, para_lines, *((False, False, False) if bad0 else (True, True, True)))
        if not read_all(lines, nl, expected, single, bool(bad0) or not case["layout"]["lead_free"], None, codecs, cuts):
            return "line-terminator"
    if bad0:
        if any(b[0] == "iter_paragraphs" and b[1] == "str" for b in bad0):
            return "plain"
        return "gpg-class" if gpg_only(bad0) else kind(bad0) or "form-dependent"
    suffix = "+gpg-class" if gpg_only(bad1) else ""
    if kind(bad1) in ("advanced-file-object", "text-file-codec"):
        suffix += "+" + kind(bad1)
    gpg = not case["layout"]["lead_free"]
    for name, flags in (("layout", (True, False, False)), ("comments", (False, True, False)),
                        ("armor", (False, False, True))):
        lines, nl, cuts = assemble(case, para_lines, *flags)
        if read_all(lines, nl, expected, single, gpg, None, codecs, cuts, eols):
            return name + suffix
    return "combination" + suffix


# ------------------------------------------------------------------------------------------
# generators

BASIC_ARMOR = {"headers": ["Hash: SHA256"], "sig_headers": [], "sig": ["iQEzBAEBCAAdFiEE", "=Um8T"],
               "gap": True, "trail": ""}
PLAIN_LAYOUT = {"lead": 0, "lead_free": [], "seps": [], "trail": 0, "final_newline": True}


def enum_cases():
    def gen():
        for first in G.SPECIAL_FIRST:
            for n in range(0, 3):
                for conts in itertools.product(G.SPECIAL_CONT, repeat=n):
                    nlines = 1 + n + 1
                    yield {"paras": [{"fields": [["K", [first, list(conts)]], ["Z", ["z", []]]],
                                      "comments": [[i, " c%d: d" % i] for i in range(nlines + 1)],
                                      "armor": BASIC_ARMOR}],
                           "layout": PLAIN_LAYOUT}
        plain = PLAIN_LAYOUT
        for i, ch in enumerate(G.NAME_FIRST):
            yield {"paras": [{"fields": [[ch, ["v", []]], [ch + "x-Y#1", [":", [" c"]]], ["Z" + ch, ["", []]]],
                              "comments": [[i % 5, " c"]], "armor": BASIC_ARMOR if i % 2 else None}],
                   "layout": plain}
        for i, ch in enumerate(G.NAME_CHARS):
            yield {"paras": [{"fields": [["X" + ch, ["v", []]], ["X" + ch + "y", ["", [" c"]]]],
                              "comments": [], "armor": None},
                             {"fields": [["a" + ch + ch, ["#", []]]], "comments": [[i % 2, ""]],
                              "armor": BASIC_ARMOR if i % 2 else None}],
                   "layout": plain}
    return gen


def enum_terminators():
    """Boundary values in documents whose lines end in CR LF (all of them, or every other one),
    commented at every line boundary - also in front of the armor header line - and clearsigned."""
    armor = dict(BASIC_ARMOR, pre=[" c: d"])

    def gen():
        for eols in (["\r\n"], ["\r\n", "\n"]):
            for first in G.SPECIAL_FIRST:
                for n in range(0, 2):
                    for conts in itertools.product(G.SPECIAL_CONT, repeat=n):
                        nlines = 1 + n + 1
                        yield {"paras": [{"fields": [["K", [first, list(conts)]], ["Z", ["z", []]]],
                                          "comments": [[i, " c%d: d" % i] for i in range(nlines + 1)],
                                          "armor": armor}],
                               "layout": dict(PLAIN_LAYOUT, eols=eols)}
    return gen


def enum_refused():
    """One refused assignment at every place of a three-field paragraph: every kind of spoilt
    value x key never assigned / assigned before / assigned afterwards x d[k] = v / d.update."""
    fields = [["A", ["1", []]], ["B", ["", [" x", "\ty"]]], ["C", [" z ", [" ."]]]]

    def gen():
        for at in range(0, 4):
            for key in REFUSED_KEYS:
                for kind in REFUSED_KINDS:
                    for via in REFUSED_VIA:
                        yield {"paras": [{"fields": fields, "comments": [], "armor": None,
                                          "refused": [{"at": at, "key": key, "index": at, "kind": kind, "via": via}]}],
                               "layout": PLAIN_LAYOUT}
    return gen


DUMP_VALUES = ["plain text", "caf\xe9 na\xefve", "5 \u20ac", "\u6f22 text", "\U0001d4b3 text"]


def enum_dumps():
    """One or two dumps with parameters on a three-field paragraph, then normal use; the value
    that a codec may be unable to express is in the middle field (so a refused dump has written
    something before)."""
    def fields(v):
        return [["Package", ["demo", []]], ["Description", [v, [" more " + v, "\t."]]], ["Tail", ["t", []]]]
    other = {"fields": [["Other", ["\xe9\u20ac\u6f22", [" x"]]], ["End", ["", []]]], "comments": [], "armor": None}
    encodings = DUMP_CODECS + [None]

    def gen():
        for v in DUMP_VALUES:
            for enc in encodings:
                for text_mode in (False, True):
                    for fail_at in (None, 0, 2):
                        yield {"paras": [{"fields": fields(v), "comments": [], "armor": None,
                                          "dumps": [{"encoding": enc, "text_mode": text_mode, "fail_at": fail_at}]}],
                               "layout": PLAIN_LAYOUT}
        for v in DUMP_VALUES[1:3]:
            for e1 in encodings:
                for e2 in encodings:
                    yield {"paras": [{"fields": fields(v), "comments": [], "armor": None,
                                      "dumps": [{"encoding": e1, "text_mode": False, "fail_at": None},
                                                {"encoding": e2, "text_mode": False, "fail_at": None}]},
                                     other],
                           "layout": PLAIN_LAYOUT}
    return gen


WS3 = ["", " ", "\t"]


def enum_gaps():
    """Every way of building the gaps of a two-paragraph document from 0..2 leading and 1..3
    separating blank lines, each empty, one SPACE or one TAB; plain and clearsigned."""
    p1 = [["A", ["1", []]], ["B", ["", [" x", "\ty"]]]]
    p2 = [["C", ["\xe9", []]], ["D", [": 2", [" ."]]]]

    def gen():
        for armor in (None, BASIC_ARMOR):
            for nlead in range(0, 3):
                for lead in itertools.product(WS3, repeat=nlead):
                    for ngap in range(1, 4):
                        for gap in itertools.product(WS3, repeat=ngap):
                            yield {"paras": [{"fields": p1, "comments": [], "armor": armor},
                                             {"fields": p2, "comments": [], "armor": armor}],
                                   "layout": dict(PLAIN_LAYOUT, lead=nlead, ws=list(lead + gap),
                                                  seps=[{"blank": ngap, "free": [], "blank2": 1}])}
            # one paragraph (all four readers): leading and trailing blank lines
            for nlead in range(1, 3):
                for lead in itertools.product(WS3, repeat=nlead):
                    for trail in itertools.product(WS3, repeat=2):
                        yield {"paras": [{"fields": p1, "comments": [], "armor": armor}],
                               "layout": dict(PLAIN_LAYOUT, lead=nlead, trail=2, ws=list(lead + trail))}
    return gen


def enum_aligned(tier):
    def gen():
        shapes = [(4096, 36), (1024, 140)]          # 144 / 140 KiB: block sizes 1 KiB .. 128 KiB
        if tier == "thorough":
            shapes += [(1000, 140), (5000, 30), (8192, 130)]                   # the last one: 1 MiB
        for unit, n in shapes:
            for measure in ("bytes", "chars"):
                for target in ALIGN_TARGETS:
                    if measure == "chars" and target == "mid-character":
                        continue
                    yield {"kind": "aligned", "unit": unit, "n": n, "target": target, "measure": measure,
                           "codecs": ["utf-16"] if measure == "chars" else []}
    return gen


# layouts and paragraph configurations of the documents of many paragraphs / fields / lines
_MANY_CONFIGS = [
    # (name, layout, comments of every paragraph, armor of every paragraph)
    ("plain", dict(PLAIN_LAYOUT, files=True, codecs=["utf-16"]), [], None),
    ("blank-line-runs", dict(PLAIN_LAYOUT, lead=2, trail=2, ws=["", " ", "\t", "", " \t"],
                             seps=[{"blank": 2, "free": [], "blank2": 1}, {"blank": 1, "free": [], "blank2": 1},
                                   {"blank": 3, "free": [], "blank2": 1}]), [], None),
    ("comments", dict(PLAIN_LAYOUT, lead_free=[" head"], files=True,
                      seps=[{"blank": 1, "free": [" between: paragraphs"], "blank2": 1},
                            {"blank": 2, "free": [" a", "b: c"], "blank2": 2},
                            {"blank": 1, "free": [], "blank2": 1}]),
     [[0, " first"], [1, ""], [2, " x: y"]], None),
    ("CRLF", dict(PLAIN_LAYOUT, eols=["\r\n"], final_newline=False), [], None),
    ("clearsigned", dict(PLAIN_LAYOUT, seps=[{"blank": 1, "free": [" c"], "blank2": 1}]), [[1, " in: side"]],
     dict(BASIC_ARMOR, pre=[" in front"])),
]


def enum_many(tier):
    """Documents of 1000 and more paragraphs, paragraphs of 1000 and more fields, values of 1000
    and more continuation lines - in every configuration above where it is affordable."""
    def gen():
        cfg = dict((c[0], c) for c in _MANY_CONFIGS)
        # the expensive ones first: the engine hands the k-th case to worker k
        shapes = []
        if tier == "thorough":
            shapes += [(20000, 2, 1, c[0]) for c in _MANY_CONFIGS[1:]]
            shapes += [(1, 20000, 1, "plain"), (1, 20000, 0, "comments"), (1, 2, 100000, "plain"),
                       (1, 2, 100000, "clearsigned"), (300, 30, 30, "comments")]
        shapes += [(20000, 2, 1, "plain"), (1, 3, 20000, "CRLF"), (1, 5000, 1, "clearsigned")]
        for n in (3000, 1000):
            shapes += [(n, 2, 1, c[0]) for c in _MANY_CONFIGS]
        shapes += [(1, 1000, 0, "plain"), (2, 3000, 1, "blank-line-runs"),
                   (1, 1200, 0, "comments"), (1, 1000, 2, "CRLF"),
                   (1, 3, 1000, "plain"), (1, 1, 5000, "clearsigned"),
                   (3, 2, 5000, "blank-line-runs"), (1, 2, 1200, "comments")]
        for n, k, c, name in shapes:
            _, layout, comments, armor = cfg[name]
            yield {"kind": "many", "n": n, "fields": k, "conts": c, "comments": comments, "armor": armor,
                   "layout": layout}
    return gen


_b64 = st.text(alphabet=st.sampled_from("ABCxyz019+/"), min_size=1, max_size=20)
armor_spec = st.fixed_dictionaries({
    "headers": st.lists(st.sampled_from(ARMOR_HEADERS), max_size=2),
    "sig_headers": st.lists(st.sampled_from(SIG_HEADERS), max_size=2),
    "sig": st.builds(lambda ls, crc: ls + crc, st.lists(_b64, min_size=0, max_size=3),
                     st.sampled_from([[], ["=Um8T"]])),
    "gap": st.booleans(),
    "trail": st.sampled_from(["", "", "", " ", "\t", " \t"]),
    # comment lines directly in front of the armor header line
    "pre": st.one_of(st.just([]), st.just([]), st.lists(G.comment_text, min_size=1, max_size=2)),
})
refused_spec = st.fixed_dictionaries({
    "at": st.integers(0, 5), "key": st.sampled_from(REFUSED_KEYS), "index": st.integers(0, 4),
    "kind": st.sampled_from(REFUSED_KINDS), "via": st.sampled_from(["setitem", "setitem", "update"])})


dump_spec = st.fixed_dictionaries({
    "encoding": st.sampled_from(DUMP_CODECS + ["ascii", "iso-8859-1", None, None]),
    "text_mode": st.sampled_from([False, False, False, True]),
    "fail_at": st.sampled_from([None, None, None, None, None, None, 0, 1, 2])})


@st.composite
def gen_para(draw, armor_p):
    fields = draw(G.fields(1, 5))
    nlines = sum(1 + len(v[1]) for _, v in fields)
    mode = draw(st.sampled_from(["none", "none", "all", "some", "some"]))
    if mode == "none":
        comments = []
    elif mode == "all":
        comments = [[i, draw(G.comment_text)] for i in range(nlines + 1)]
    else:
        comments = draw(st.lists(st.tuples(st.integers(0, nlines), G.comment_text), min_size=1, max_size=3))
        comments = [list(c) for c in comments]
    armor = draw(armor_spec) if draw(st.sampled_from(armor_p)) else None
    refused = draw(st.one_of(st.just([]), st.just([]), st.lists(refused_spec, min_size=1, max_size=3)))
    dumps = draw(st.one_of(st.just([]), st.just([]), st.lists(dump_spec, min_size=1, max_size=3)))
    return {"fields": fields, "comments": comments, "armor": armor, "refused": refused, "dumps": dumps}


free_block = st.one_of(st.just([]), st.just([]), st.lists(G.comment_text, min_size=1, max_size=2))


@st.composite
def gen_case(draw):
    n = draw(st.sampled_from([1, 1, 1, 2, 2, 3, 4]))
    armor_p = draw(st.sampled_from([[False], [False, True], [True]]))
    paras = [draw(gen_para(armor_p)) for _ in range(n)]
    seps = []
    if n > 1:
        seps = draw(st.lists(st.fixed_dictionaries({"blank": st.sampled_from([1, 1, 2, 3]), "free": free_block,
                                                    "blank2": st.sampled_from([1, 1, 2])}),
                             min_size=1, max_size=n - 1))
    layout = {"lead": draw(st.sampled_from([0, 0, 0, 1, 2])),
              "lead_free": draw(st.one_of(st.just([]), st.just([]), free_block)),
              "seps": seps,
              "trail": draw(st.sampled_from([0, 0, 1, 2])),
              "final_newline": draw(st.sampled_from([True, True, True, False])),
              "files": draw(st.sampled_from([False] * 7 + [True])),
              # blank lines of the layout: all empty (half of the cases) or empty / SPACE / TAB runs
              "ws": draw(st.one_of(st.just([]), st.lists(st.sampled_from(["", "", " ", "\t", " \t", "  "]),
                                                         min_size=1, max_size=6))),
              # line terminators, cycled over the lines of the document
              "eols": draw(st.sampled_from([["\n"]] * 5 + [["\r\n"]] * 2 + [["\r\n", "\n"], ["\n", "\n", "\r\n"]])),
              "codecs": draw(st.sampled_from([[], [], [], ["utf-16"], ["utf-16"], ["iso-8859-15"], ["cp1252"],
                                              ["utf-32"], ["utf-8-sig"], ["utf-16-le"], ["utf-16-be", "iso-8859-1"]]))}
    return {"paras": paras, "layout": layout}


def sources(tier):
    if tier == "quick":
        return [Enum("many-paragraphs-fields-lines", enum_many("quick"), _EXH_MANY),
                Enum("boundary-values", enum_cases(), _EXH),
                Enum("blank-line-gaps", enum_gaps(), _EXH_GAPS),
                Enum("line-terminators", enum_terminators(), _EXH_EOL),
                Enum("refused-assignments", enum_refused(), _EXH_REFUSED),
                Enum("dumps-with-parameters", enum_dumps(), _EXH_DUMPS),
                Enum("aligned-big-documents", enum_aligned("quick"), _EXH_BIG),
                Hyp("documents", gen_case(), 600, shards=10)]
    return [Enum("many-paragraphs-fields-lines", enum_many("thorough"), _EXH_MANY_T),
            Enum("boundary-values", enum_cases(), _EXH),
            Enum("blank-line-gaps", enum_gaps(), _EXH_GAPS),
            Enum("line-terminators", enum_terminators(), _EXH_EOL),
            Enum("refused-assignments", enum_refused(), _EXH_REFUSED),
            Enum("dumps-with-parameters", enum_dumps(), _EXH_DUMPS),
            Enum("aligned-big-documents", enum_aligned("thorough"), _EXH_BIG_T),
            Hyp("documents", gen_case(), 4000, shards=16)]
