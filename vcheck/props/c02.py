"""C02 - Deb822 paragraphs survive dump and re-parse, whatever the input form.

case = {"paras": [{"fields":   [[name, [first, [cont, ...]]], ...],
                   "comments": [[pos, text], ...],   comment line "#"+text before payload line pos
                                                     (pos is taken modulo number of lines + 1)
                   "armor":    null | {"headers": [...], "sig_headers": [...], "sig": [...],
                                       "gap": bool, "trail": blanks}}, ...],
        "layout": {"lead": n,               empty lines before the first paragraph
                   "lead_free": [text...],  free-standing comment block + empty line at the very start
                   "seps": [{"blank": n>=1, "free": [text...], "blank2": n>=1}, ...],
                                            separator before paragraph i>0 is seps[(i-1) % len]:
                                            n empty lines [+ comment block + n empty lines]
                   "trail": n,              extra empty lines at the end
                   "final_newline": bool,
                   "files": bool}}          (optional) also read through real text/binary files

Every paragraph is built by assignment into an empty ``Deb822`` and dumped.  Two documents are
assembled from the dumps: the *plain* one (dumps joined by one empty line) and the *full* one
(the case's layout, comment lines and clearsign armor all applied).  Each document is presented
in eight input forms to ``Deb822.iter_paragraphs`` and, if it has one paragraph, to the
constructors of ``Deb822``, ``Dsc`` and ``Changes``.  Every reading must give the generated
``[name, first.strip(blanks) + continuation lines verbatim]`` lists, in order, without a warning.
"""
import io
import itertools
import os
import re
import shutil
import tempfile
import warnings

from hypothesis import strategies as st

from ..core import Violation, Enum, Hyp, short
from ..gen import c02_deb822text as G

from debian.deb822 import Deb822, Dsc, Changes

ID = "C02"
LEVEL = "exploration"
RULE = ("a case is a document of 1..4 paragraphs x 1..5 fields (Policy-valid names distinct ignoring "
        "case; values = first line of printable text/TAB with any blanks around it + 0..3 continuation "
        "lines starting with a blank and holding non-blank text) plus a configuration: comment lines at "
        "chosen or at all line boundaries, free-standing comment blocks between paragraphs, synthetic "
        "clearsign armor per paragraph, leading/trailing/multiple empty lines, final newline or not; "
        "each case is read plain and fully configured in 8 input forms (str, bytes, list of lines with "
        "and without newline, list of bytes lines, StringIO, BytesIO, TextIOWrapper) by iter_paragraphs "
        "and, for one paragraph, by Deb822/Dsc/Changes constructors (one case in eight also through real "
        "text and binary files); what was read is dumped and read once more. Enumerated: 21 boundary first "
        "lines x all sequences of 0..2 of 16 boundary continuation lines, commented at every line boundary "
        "and armored; every legal field-name character in first and later position. Non-trivial = at least one multi-line value or at least two paragraphs; distinct = "
        "distinct canonical JSON of the case")
ASSUMPTIONS = [
    "expected values are computed from the generated data only: first line stripped of SPACE/TAB, "
    "continuation lines verbatim (no model of the parser)",
    "documents are assembled by the harness from the library's own dump() of each paragraph, split at "
    "LF; comment lines, armor and empty lines are inserted between those lines",
    "clearsign armor is synthetic (no signature is made or verified); field and continuation lines never "
    "start with '-', so no dash-escaping is involved",
    "Dsc/Changes readers are not applied when the document starts with a free-standing comment block "
    "(observed: Dsc(lines) then returns an empty paragraph - outside the stated configurations)",
    "Hypothesis 6.168 generators; sha1 for distinctness",
]
_EXH = ("21 boundary first lines x every sequence of 0..2 continuation lines from 16 boundary lines "
        "(5 733 values) in a two-field paragraph, comments at every line boundary, armored; every legal "
        "first character of a field name (91) and every legal later character (93) in small documents")
EXHAUSTIVE = {"quick": _EXH, "thorough": _EXH}
BUDGET = {"quick": 200, "thorough": 1500}

BEGIN_MSG = "-----BEGIN PGP SIGNED MESSAGE-----"
BEGIN_SIG = "-----BEGIN PGP SIGNATURE-----"
END_SIG = "-----END PGP SIGNATURE-----"
ARMOR_HEADERS = ["Hash: SHA1", "Hash: SHA256", "Hash: SHA512", "Charset: UTF-8",
                 "NotDashEscaped: You need GnuPG to verify this message"]
SIG_HEADERS = ["Version: GnuPG v1.4.3 (GNU/Linux)", "Comment: Signed by Adeodato Simó <dato@net.com.org.es>",
               "Comment: a: b"]
_header_re = re.compile(r"^[A-Za-z]+: \S.*$")
_b64_re = re.compile(r"^[A-Za-z0-9+/=]+$")


# ------------------------------------------------------------------------------------------
# case validation (a replay file may contain anything)


def _is_int(x, lo, hi):
    return isinstance(x, int) and not isinstance(x, bool) and lo <= x <= hi


def _comment_texts(xs):
    return isinstance(xs, list) and all(isinstance(t, str) and G.is_text(t, "\t") for t in xs)


def valid_armor(a):
    if a is None:
        return True
    return (isinstance(a, dict)
            and isinstance(a.get("headers"), list) and all(isinstance(h, str) and _header_re.match(h) and G.is_text(h) for h in a["headers"])
            and isinstance(a.get("sig_headers"), list) and all(isinstance(h, str) and _header_re.match(h) and G.is_text(h) for h in a["sig_headers"])
            and isinstance(a.get("sig"), list) and all(isinstance(l, str) and _b64_re.match(l) for l in a["sig"])
            and isinstance(a.get("gap"), bool)
            and isinstance(a.get("trail"), str) and a["trail"].strip(" \t") == "")


def valid_case(case):
    if not (isinstance(case, dict) and isinstance(case.get("paras"), list) and case["paras"]
            and isinstance(case.get("layout"), dict)):
        return False
    for p in case["paras"]:
        if not (isinstance(p, dict) and G.valid_fields(p.get("fields")) and valid_armor(p.get("armor"))):
            return False
        cs = p.get("comments")
        if not (isinstance(cs, list) and all(isinstance(c, list) and len(c) == 2 and _is_int(c[0], 0, 10 ** 6)
                                             for c in cs) and _comment_texts([c[1] for c in cs])):
            return False
    lay = case["layout"]
    if not (_is_int(lay.get("lead"), 0, 5) and _is_int(lay.get("trail"), 0, 5)
            and isinstance(lay.get("final_newline"), bool) and _comment_texts(lay.get("lead_free"))
            and isinstance(lay.get("seps"), list) and isinstance(lay.get("files", False), bool)):
        return False
    for s in lay["seps"]:
        if not (isinstance(s, dict) and _is_int(s.get("blank"), 1, 5) and _is_int(s.get("blank2"), 1, 5)
                and _comment_texts(s.get("free"))):
            return False
    return True


# ------------------------------------------------------------------------------------------
# document assembly


def _interleave(lines, comments):
    if not comments:
        return list(lines)
    buckets = [[] for _ in range(len(lines) + 1)]
    for pos, text in comments:
        buckets[pos % (len(lines) + 1)].append("#" + text)
    out = []
    for i, l in enumerate(lines):
        out.extend(buckets[i])
        out.append(l)
    out.extend(buckets[len(lines)])
    return out


def _wrap(payload, a):
    tr = a["trail"]
    return ([BEGIN_MSG + tr] + list(a["headers"]) + [""] + payload + ([""] if a["gap"] else [])
            + [BEGIN_SIG + tr] + list(a["sig_headers"]) + [""] + list(a["sig"]) + [END_SIG + tr])


def assemble(case, para_lines, layout=True, comments=True, armor=True):
    """(list of lines without terminators, final newline?) for the chosen features."""
    lay = case["layout"]
    doc = []
    if layout:
        doc += [""] * lay["lead"]
    if comments and lay["lead_free"]:
        doc += ["#" + t for t in lay["lead_free"]] + [""]
    for i, p in enumerate(case["paras"]):
        if i > 0:
            sep = lay["seps"][(i - 1) % len(lay["seps"])] if lay["seps"] else None
            doc += [""] * (sep["blank"] if (sep and layout) else 1)
            if sep and comments and sep["free"]:
                doc += ["#" + t for t in sep["free"]] + [""] * (sep["blank2"] if layout else 1)
        pl = _interleave(para_lines[i], p["comments"]) if comments else list(para_lines[i])
        if armor and p["armor"] is not None:
            pl = _wrap(pl, p["armor"])
        doc += pl
    final_newline = lay["final_newline"] if layout else True
    if layout and final_newline:
        doc += [""] * lay["trail"]
    return doc, final_newline


class TmpFiles(object):
    """Real files for the 'file object' input forms; one private directory per check() call."""

    def __init__(self, enabled):
        self.enabled, self.dir, self.opened, self.n = enabled, None, [], 0

    def __enter__(self):
        if self.enabled:
            self.dir = tempfile.mkdtemp(prefix="vcheck-c02-")
        return self

    def store(self, raw):
        self.n += 1
        path = os.path.join(self.dir, "doc%d" % self.n)
        with open(path, "wb") as f:
            f.write(raw)
        return path

    def open(self, path, binary):
        f = open(path, "rb") if binary else open(path, "r", encoding="utf-8")
        self.opened.append(f)
        return f

    def __exit__(self, *exc):
        for f in self.opened:
            f.close()
        if self.dir:
            shutil.rmtree(self.dir, ignore_errors=True)
        return False


def forms(lines, final_newline, tmp=None):
    text = "\n".join(lines) + ("\n" if final_newline else "")
    raw = text.encode("utf-8")
    with_nl = [l + "\n" for l in lines]
    if not final_newline and with_nl:
        with_nl[-1] = with_nl[-1][:-1]
    raw_nl = [l.encode("utf-8") for l in with_nl]
    out = [
        ("str", lambda: text),
        ("bytes", lambda: raw),
        ("lines+nl", lambda: list(with_nl)),
        ("lines", lambda: list(lines)),
        ("byteslines+nl", lambda: list(raw_nl)),
        ("StringIO", lambda: io.StringIO(text)),
        ("BytesIO", lambda: io.BytesIO(raw)),
        ("TextIOWrapper", lambda: io.TextIOWrapper(io.BytesIO(raw), encoding="utf-8")),
    ]
    if tmp is not None and tmp.enabled:
        path = tmp.store(raw)
        out.append(("text-file", lambda: tmp.open(path, False)))
        out.append(("binary-file", lambda: tmp.open(path, True)))
    return out


def _items(p):
    return [[k, v] for k, v in p.items()]


def symptom(expected, got):
    """Coarse root-cause class of a wrong reading (first part of the signature)."""
    def flat(doc):
        return [x[0] for para in doc for x in para]
    try:
        if flat(expected) != flat(got):
            return "fields-lost-or-added"
        if [len(p) for p in expected] != [len(p) for p in got]:
            return "paragraph-boundaries"
        for e, g in zip(expected, got):
            for (_, ev), (_, gv) in zip(e, g):
                if not isinstance(gv, str) or ev.split("\n")[0] != gv.split("\n")[0]:
                    return "first-line"
    except (TypeError, IndexError, ValueError):
        return "malformed-result"
    return "continuation-lines"


def read_all(lines, final_newline, expected, single, gpg_classes, tmp=None):
    """All readings of one document that differ from ``expected``: [(reader, form, got)]."""
    bad = []
    for fname, make in forms(lines, final_newline, tmp):
        got = [_items(p) for p in Deb822.iter_paragraphs(make())]
        if got != expected:
            bad.append(("iter_paragraphs", fname, got))
        if single:
            readers = [("Deb822", Deb822)]
            if gpg_classes:
                readers += [("Dsc", Dsc), ("Changes", Changes)]
            for rname, cls in readers:
                got = [_items(cls(make()))]
                if got != expected:
                    bad.append((rname, fname, got))
    return bad


def check(case):
    if not valid_case(case):
        return (False, ("invalid-or-out-of-domain-case-skipped",))
    paras = case["paras"]
    lay = case["layout"]
    expected = [[[n, G.normalised(v)] for n, v in p["fields"]] for p in paras]

    para_lines = []
    for p in paras:
        d = Deb822()
        for n, v in p["fields"]:
            try:
                d[n] = G.value_string(v)
            except ValueError as e:
                raise Violation("assignment-rejected", "d[%r] = %r raised ValueError(%s)" % (n, G.value_string(v), e))
        text = d.dump()
        if not isinstance(text, str):
            raise Violation("dump-not-str", "dump() returned %s" % short(text))
        tio, bio = io.StringIO(), io.BytesIO()
        d.dump(tio, text_mode=True)
        d.dump(bio)
        if tio.getvalue() != text or bio.getvalue() != text.encode("utf-8"):
            raise Violation("dump-fd-differs", "dump() gives %s, text fd %s, binary fd %s"
                            % (short(text), short(tio.getvalue()), short(bio.getvalue())))
        # What dump() writes is a function of the paragraph's current fields, whatever was dumped
        # before: take the first field out, dump and re-read, put it back in place, dump again.
        if len(p["fields"]) >= 2:
            n0 = p["fields"][0][0]
            v0 = d[n0]
            del d[n0]
            got = [_items(q) for q in Deb822.iter_paragraphs(d.dump())]
            want = [[[n, G.normalised(v)] for n, v in p["fields"][1:]]]
            if got != want:
                raise Violation("dump-after-edit", "after del d[%r] the dump %s reads %s, expected %s"
                                % (n0, short(d.dump()), short(got), short(want)))
            d[n0] = v0
            d.order_first(n0)
            if d.dump() != text:
                raise Violation("dump-after-edit", "field %r removed, re-added and moved first: dump %s, "
                                "before %s" % (n0, short(d.dump()), short(text)))
        ls = text.split("\n")
        if ls and ls[-1] == "":
            ls.pop()
        para_lines.append(ls)

    single = len(paras) == 1
    has_comments = bool(lay["lead_free"]) or any(p["comments"] for p in paras) or \
        (len(paras) > 1 and any(s["free"] for s in lay["seps"]))
    has_armor = any(p["armor"] is not None for p in paras)
    plain, plain_nl = assemble(case, para_lines, False, False, False)
    full, full_nl = assemble(case, para_lines, True, True, True)

    regen = None
    with warnings.catch_warnings(record=True) as caught, TmpFiles(bool(lay.get("files"))) as tmp:
        warnings.simplefilter("always")
        bad0 = read_all(plain, plain_nl, expected, single, True, tmp)
        bad1 = []
        if (full, full_nl) != (plain, plain_nl):
            bad1 = read_all(full, full_nl, expected, single, not lay["lead_free"], tmp)
        if bad0 or bad1:
            scope = _scope(case, para_lines, expected, single, bad0, bad1)
        else:
            scope = None
            # second generation: what was read is itself a paragraph of the domain (normalised values)
            second = "\n".join(p.dump() for p in Deb822.iter_paragraphs("\n".join(plain) + "\n"))
            got2 = [_items(p) for p in Deb822.iter_paragraphs(second)]
            if got2 != expected:
                regen = (second, got2)
    if scope is not None:
        which, bad, lines, nl = ("plain", bad0, plain, plain_nl) if bad0 else ("configured", bad1, full, full_nl)
        rname, fname, got = bad[0]
        text = "\n".join(lines) + ("\n" if nl else "")
        raise Violation("%s/%s" % (symptom(expected, got), scope),
                        "%s document %s read by %s as %s gives %s, expected %s (%d of the readings of this "
                        "document differ: %s)" % (which, short(text, 400), rname, fname, short(got, 400),
                                                  short(expected, 400), len(bad),
                                                  short(sorted(set("%s/%s" % (r, f) for r, f, _ in bad)), 300)))
    if regen is not None:
        raise Violation("%s/second-generation" % symptom(expected, regen[1]),
                        "paragraphs read back, dumped again as %s and re-read give %s, expected %s"
                        % (short(regen[0], 400), short(regen[1], 400), short(expected, 400)))
    if caught:
        w = caught[0]
        raise Violation("warning-emitted", "%s: %s while reading %s" % (
            w.category.__name__, w.message, short("\n".join(full), 300)))

    # ---- labels
    labels = ["paragraphs:%d" % len(paras)]
    vals = [v for p in paras for _, v in p["fields"]]
    names = [n for p in paras for n, _ in p["fields"]]
    multiline = any(v[1] for v in vals)
    if multiline:
        labels.append("multi-line-value")
    if any(v[0].strip(" \t").startswith(":") for v in vals):
        labels.append("value-starts-with-colon")
    if any(v[0].strip(" \t").startswith("#") for v in vals):
        labels.append("value-starts-with-hash")
    if any(v[0].endswith("\t") or any(c.endswith("\t") for c in v[1]) for v in vals):
        labels.append("trailing-tab")
    if any(c != c.rstrip(" \t") for v in vals for c in v[1]):
        labels.append("continuation-trailing-blanks")
    if any(v[0] != v[0].strip(" \t") and v[0].strip(" \t") for v in vals):
        labels.append("first-line-padded")
    if any(":" in c for v in vals for c in v[1]):
        labels.append("colon-in-continuation")
    if any(c.lstrip(" \t").startswith("#") for v in vals for c in v[1]):
        labels.append("hash-led-continuation")
    if any(c[0] == "\t" for v in vals for c in v[1]):
        labels.append("tab-led-continuation")
    if any(v[0].strip(" \t") == "" and v[1] for v in vals):
        labels.append("empty-first-line")
    if any(v[0].strip(" \t") == "" and not v[1] for v in vals):
        labels.append("empty-value")
    if any(ord(ch) > 127 for v in vals for ch in G.value_string(v)):
        labels.append("non-ascii")
    if any(not n[0].isalnum() for n in names):
        labels.append("name-starts-with-punctuation")
    if any("#" in n for n in names):
        labels.append("hash-in-name")
    if has_armor:
        labels.append("armor")
        if any(p["armor"] and p["armor"]["trail"] for p in paras):
            labels.append("armor-trailing-blanks")
        if any(p["armor"] and not p["armor"]["headers"] for p in paras):
            labels.append("armor-without-headers")
        if len(paras) > 1:
            labels.append("armor-in-multi-paragraph")
    if any(p["comments"] for p in paras):
        labels.append("comments-interleaved")
        if has_armor and any(p["comments"] and p["armor"] for p in paras):
            labels.append("comments-inside-armor")
    if lay["lead_free"] or (len(paras) > 1 and any(s["free"] for s in lay["seps"])):
        labels.append("free-comment-block")
    if not lay["final_newline"]:
        labels.append("no-final-newline")
    if lay["lead"]:
        labels.append("leading-empty-lines")
    if len(paras) > 1 and any(s["blank"] > 1 for s in lay["seps"]):
        labels.append("multiple-empty-separator")
    if not has_armor and not has_comments:
        labels.append("plain-only")
    if lay.get("files"):
        labels.append("real-files")
    return (multiline or len(paras) >= 2, labels)


def _scope(case, para_lines, expected, single, bad0, bad1):
    """Name the configuration dimension a failure depends on (part of the signature)."""
    def gpg_only(bad):
        return all(r in ("Dsc", "Changes") for r, _, _ in bad)
    if bad0:
        if any(r == "iter_paragraphs" and f == "str" for r, f, _ in bad0):
            return "plain"
        return "gpg-class" if gpg_only(bad0) else "form-dependent"
    suffix = "+gpg-class" if gpg_only(bad1) else ""
    gpg = not case["layout"]["lead_free"]
    for name, flags in (("layout", (True, False, False)), ("comments", (False, True, False)),
                        ("armor", (False, False, True))):
        lines, nl = assemble(case, para_lines, *flags)
        if read_all(lines, nl, expected, single, gpg):
            return name + suffix
    return "combination" + suffix


# ------------------------------------------------------------------------------------------
# generators

BASIC_ARMOR = {"headers": ["Hash: SHA256"], "sig_headers": [], "sig": ["iQEzBAEBCAAdFiEE", "=Um8T"],
               "gap": True, "trail": ""}
PLAIN_LAYOUT = {"lead": 0, "lead_free": [], "seps": [], "trail": 0, "final_newline": True}


def enum_cases():
    def gen():
        for first in G.SPECIAL_FIRST:
            for n in range(0, 3):
                for conts in itertools.product(G.SPECIAL_CONT, repeat=n):
                    nlines = 1 + n + 1
                    yield {"paras": [{"fields": [["K", [first, list(conts)]], ["Z", ["z", []]]],
                                      "comments": [[i, " c%d: d" % i] for i in range(nlines + 1)],
                                      "armor": BASIC_ARMOR}],
                           "layout": PLAIN_LAYOUT}
        plain = PLAIN_LAYOUT
        for i, ch in enumerate(G.NAME_FIRST):
            yield {"paras": [{"fields": [[ch, ["v", []]], [ch + "x-Y#1", [":", [" c"]]], ["Z" + ch, ["", []]]],
                              "comments": [[i % 5, " c"]], "armor": BASIC_ARMOR if i % 2 else None}],
                   "layout": plain}
        for i, ch in enumerate(G.NAME_CHARS):
            yield {"paras": [{"fields": [["X" + ch, ["v", []]], ["X" + ch + "y", ["", [" c"]]]],
                              "comments": [], "armor": None},
                             {"fields": [["a" + ch + ch, ["#", []]]], "comments": [[i % 2, ""]],
                              "armor": BASIC_ARMOR if i % 2 else None}],
                   "layout": plain}
    return gen


_b64 = st.text(alphabet=st.sampled_from("ABCxyz019+/"), min_size=1, max_size=20)
armor_spec = st.fixed_dictionaries({
    "headers": st.lists(st.sampled_from(ARMOR_HEADERS), max_size=2),
    "sig_headers": st.lists(st.sampled_from(SIG_HEADERS), max_size=2),
    "sig": st.builds(lambda ls, crc: ls + crc, st.lists(_b64, min_size=0, max_size=3),
                     st.sampled_from([[], ["=Um8T"]])),
    "gap": st.booleans(),
    "trail": st.sampled_from(["", "", "", " ", "\t", " \t"]),
})


@st.composite
def gen_para(draw, armor_p):
    fields = draw(G.fields(1, 5))
    nlines = sum(1 + len(v[1]) for _, v in fields)
    mode = draw(st.sampled_from(["none", "none", "all", "some", "some"]))
    if mode == "none":
        comments = []
    elif mode == "all":
        comments = [[i, draw(G.comment_text)] for i in range(nlines + 1)]
    else:
        comments = draw(st.lists(st.tuples(st.integers(0, nlines), G.comment_text), min_size=1, max_size=3))
        comments = [list(c) for c in comments]
    armor = draw(armor_spec) if draw(st.sampled_from(armor_p)) else None
    return {"fields": fields, "comments": comments, "armor": armor}


free_block = st.one_of(st.just([]), st.just([]), st.lists(G.comment_text, min_size=1, max_size=2))


@st.composite
def gen_case(draw):
    n = draw(st.sampled_from([1, 1, 1, 2, 2, 3, 4]))
    armor_p = draw(st.sampled_from([[False], [False, True], [True]]))
    paras = [draw(gen_para(armor_p)) for _ in range(n)]
    seps = []
    if n > 1:
        seps = draw(st.lists(st.fixed_dictionaries({"blank": st.sampled_from([1, 1, 2, 3]), "free": free_block,
                                                    "blank2": st.sampled_from([1, 1, 2])}),
                             min_size=1, max_size=n - 1))
    layout = {"lead": draw(st.sampled_from([0, 0, 0, 1, 2])),
              "lead_free": draw(st.one_of(st.just([]), st.just([]), free_block)),
              "seps": seps,
              "trail": draw(st.sampled_from([0, 0, 1, 2])),
              "final_newline": draw(st.sampled_from([True, True, True, False])),
              "files": draw(st.sampled_from([False] * 7 + [True]))}
    return {"paras": paras, "layout": layout}


def sources(tier):
    if tier == "quick":
        return [Enum("boundary-values", enum_cases(), EXHAUSTIVE["quick"]),
                Hyp("documents", gen_case(), 600, shards=10)]
    return [Enum("boundary-values", enum_cases(), EXHAUSTIVE["thorough"]),
            Hyp("documents", gen_case(), 4000, shards=16)]
