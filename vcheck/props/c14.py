"""C14 - Version objects accept exactly valid version strings and decompose losslessly;
component assignment recomposes or rolls back.

cases:
  {"kind": "string",  "s": any string}
  {"kind": "history", "start": valid version string, "ops": [[attribute, value], ...]}
      attribute in epoch / upstream_version / debian_revision / debian_version / full_version;
      value a string, or None (not for full_version, whose documented type is str).
"""
import copy
import itertools

from hypothesis import strategies as st

from ..core import Violation, Enum, Hyp, Custom, short
from ..model.c14_recogniser import (recognise, recompose, invalid_cause, VALID, INVALID, UNSPECIFIED)
from ..model import c03_dpkgcmp as dpkgmodel
from ..gen import c03_versions as gen

from debian import debian_support
from debian.debian_support import Version

ID = "C14"
LEVEL = "exploration"
RULE = ("string cases: every string of length <=4 (quick) / <=5 (thorough) over the 13 characters "
        "{0,1,a,.,+,~,-,:,space,newline,_,ARABIC-INDIC ONE,e-acute} enumerated completely; generated: "
        "grammar versions with 0-2 character-level mutations (insert/replace/delete with foreign "
        "characters - blanks, newline, '_', non-ASCII letters and digits, other ASCII punctuation - at "
        "the first/last position, around the first colon, around the last hyphen, or anywhere; extra "
        "colons/hyphens). history cases: a valid version followed by 1..6 assignments to epoch / "
        "upstream_version / debian_revision / debian_version / full_version with None, valid components, "
        "components with a foreign character, with ':' or '-', or empty. Non-trivial = (string) contains "
        "a character outside the version alphabet or at least two of ':'/'-'; (history) at least one "
        "assignment was rejected by the library; long cases: components of 4299..70000 characters "
        "(digits, letters) constructed with all three version classes and assigned; distinct = distinct canonical JSON of the case")
ASSUMPTIONS = [
    "reference = hand-written, regex-free recogniser (model/c14_recogniser): split at the FIRST colon and "
    "the LAST hyphen; three-valued: strings whose split leaves an empty upstream or empty revision are "
    "UNSPECIFIED (either outcome accepted, losslessness still demanded)",
    "a successful assignment is judged on the recomposed string [epoch:]upstream[-revision] built from the "
    "pre-state components with the assigned one substituted (None = absent); an empty-string revision may "
    "be read as absent or as a trailing hyphen",
    "full_version is assigned strings only (its documented type); None is assigned to the three components",
    "dpkg --validate-version (1.21.22 here) cross-checks the recogniser on digit-led strings without "
    "leading/trailing blanks and with epoch <= INT_MAX (dpkg trims blanks and limits the epoch); if the "
    "binary is missing the note counter dpkg-binary-missing is set",
    "Hypothesis 6.168 generators; sha1 for distinctness",
]
EXHAUSTIVE = {"quick": "all strings of length 0..4 over the 13-character alphabet (30 941 strings)",
              "thorough": "all strings of length 0..5 over the 13-character alphabet (402 234 strings)"}
BUDGET = {"quick": 200, "thorough": 1500}

ENUM_ALPHABET = ["0", "1", "a", ".", "+", "~", "-", ":", " ", "\n", "_", "\u0661", "\u00e9"]
VERSION_ALPHABET = frozenset("abcdefghijklmnopqrstuvwxyzABCDEFGHIJKLMNOPQRSTUVWXYZ0123456789.+~-:")
ATTRS = ["epoch", "upstream_version", "debian_revision", "debian_version", "full_version"]


# ------------------------------------------------------------------------------------------
# observation helpers


def observe(v):
    # hash() is part of the observable state: an object changed by assignment must be
    # indistinguishable from a fresh object built from its string (checked in same_as_fresh)
    return (str(v), v.full_version, v.epoch, v.upstream_version, v.debian_revision, v.debian_version, hash(v))


def same_as_fresh(v, what):
    s = str(v)
    try:
        fresh = Version(s)
    except ValueError:
        return            # reported elsewhere (the string is judged by the recogniser)
    if not (v == fresh) or (v != fresh) or v < fresh or v > fresh:
        raise Violation("object-differs-from-fresh:compare", "%s: the object compares unequal to "
                        "Version(%r) built from its own string" % (what, s))
    if hash(v) != hash(fresh):
        raise Violation("object-differs-from-fresh:hash", "%s: hash of the object differs from the hash "
                        "of Version(%r) built from its own string" % (what, s))
    if len({v, fresh}) != 1:
        raise Violation("object-differs-from-fresh:hash", "%s: {v, Version(%r)} has two elements" % (what, s))


def components(v):
    return (v.epoch, v.upstream_version, v.debian_revision)


def accepted_invalid_sig(s):
    cause = invalid_cause(s)
    if cause == "trailing-newline":
        return "accepts-trailing-newline"
    if cause == "non-ascii-digit-epoch":
        return "accepts-non-ascii-digit-epoch"
    if cause == "colon-in-revision":
        return "accepts-colon-in-revision"
    return "accepts-invalid-version"


def check_decomposition(v, s, verdict, parts, ctx):
    """The object claims to hold the string ``s``: str, components, recomposition, split."""
    if str(v) != s or v.full_version != s:
        raise Violation(ctx + "str-differs", "expected %r, str() gives %r, full_version %r"
                        % (s, str(v), v.full_version))
    comps = components(v)
    for c in comps:
        if c is not None and type(c) is not str:
            raise Violation(ctx + "component-type", "%r: components %r" % (s, comps))
    if v.debian_version != v.debian_revision:
        raise Violation(ctx + "alias-differs", "%r: debian_version %r, debian_revision %r"
                        % (s, v.debian_version, v.debian_revision))
    rc = recompose(*comps)
    if rc != s:
        raise Violation(ctx + "recompose-differs", "%r: components %r recompose to %r" % (s, comps, rc))
    if verdict == VALID and comps != tuple(parts):
        raise Violation(ctx + "split-differs", "%r: components %r, grammar says %r" % (s, comps, tuple(parts)))
    return comps


def string_labels(s, verdict, accepted):
    labels = ["kind:string", "verdict:" + verdict, "accepted" if accepted else "rejected"]
    foreign = [c for c in s if c not in VERSION_ALPHABET]
    if foreign:
        labels.append("foreign-char")
        if s[-1] not in VERSION_ALPHABET:
            labels.append("foreign-last")
        if s[0] not in VERSION_ALPHABET:
            labels.append("foreign-first")
        if s.endswith("\n"):
            labels.append("trailing-newline")
        if any(c.isdecimal() and not c.isascii() for c in s.split(":")[0]) and ":" in s:
            labels.append("non-ascii-digit-before-colon")
        if any(not c.isascii() for c in s):
            labels.append("non-ascii")
    nsep = s.count(":") + s.count("-")
    if s.count(":") >= 2:
        labels.append("colons>=2")
    if s.count("-") >= 2:
        labels.append("hyphens>=2")
    if s == "":
        labels.append("empty-string")
    return (bool(foreign) or nsep >= 2), labels


def check_string(s):
    verdict, parts = recognise(s)
    try:
        v = Version(s)
    except ValueError:
        if verdict == VALID:
            raise Violation("rejects-valid-version", "Version(%r) raises ValueError; grammar split %r"
                            % (s, parts))
        return string_labels(s, verdict, False)
    if verdict == INVALID:
        raise Violation(accepted_invalid_sig(s), "Version(%r) is accepted (components %r)"
                        % (s, components(v)))
    check_decomposition(v, s, verdict, parts, "")
    return string_labels(s, verdict, True)


# ------------------------------------------------------------------------------------------
# assignment histories


def targets(pre_comps, attr, value):
    """The string(s) the assignment 'correspondingly recomposes' to; [] if there is none."""
    e, u, r = pre_comps
    if attr == "full_version":
        return [value]
    if attr == "epoch":
        e = value
    elif attr == "upstream_version":
        u = value
    else:
        r = value
    if u is None:
        return []
    if r == "":
        # an empty revision: 'no revision' or a bare trailing hyphen -- the text does not say
        return [recompose(e, u, None), recompose(e, u, "")]
    return [recompose(e, u, r)]


def check_history(start, ops):
    verdict, parts = recognise(start)
    if verdict != VALID:
        return (False, ("invalid-case-skipped",))
    try:
        v = Version(start)
    except ValueError:
        raise Violation("rejects-valid-version", "Version(%r) raises ValueError" % start)
    check_decomposition(v, start, verdict, parts, "")
    labels = set(["kind:history"])
    rejected = accepted = 0
    # Other version objects made from this one (Version(v), copy.copy, copy.deepcopy) are separate
    # objects: whatever is assigned to ``v`` afterwards, they keep the state they were made with -
    # and a step applied to such a sibling must leave ``v`` alone (every third step goes there).
    siblings = [("Version(v)", Version(v)), ("copy.copy(v)", copy.copy(v)), ("copy.deepcopy(v)", copy.deepcopy(v))]
    sib_state = [observe(s_) for _, s_ in siblings]
    if any(st_[:6] != observe(v)[:6] for st_ in sib_state):
        raise Violation("sibling-differs-at-birth", "Version(%r): %r vs %r" % (start, sib_state, observe(v)))
    for step, op in enumerate(ops):
        if step % 3 == 2 and isinstance(op, list) and len(op) == 2 and op[0] in ATTRS and \
                (op[1] is None or isinstance(op[1], str)) and not (op[0] == "full_version" and op[1] is None):
            k = (step // 3) % len(siblings)
            mine = observe(v)
            try:
                setattr(siblings[k][1], op[0], op[1])
            except (ValueError, TypeError):
                pass
            sib_state[k] = observe(siblings[k][1])
            if observe(v) != mine:
                raise Violation("assignment-leaks-between-objects", "step %d: %s = %r on %s changed the "
                                "original from %r to %r" % (step, op[0], op[1], siblings[k][0], mine, observe(v)))
            labels.add("step-on-a-sibling-object")
            continue
        for (nm, s_), st_ in zip(siblings, sib_state):
            if observe(s_) != st_:
                raise Violation("assignment-leaks-between-objects", "before step %d: %s went from %r to %r "
                                "although only the original was assigned to" % (step, nm, st_, observe(s_)))
        if not (isinstance(op, list) and len(op) == 2 and op[0] in ATTRS):
            continue
        attr, value = op
        if not (value is None or isinstance(value, str)):
            continue
        if attr == "full_version" and value is None:
            continue
        pre = observe(v)
        pre_comps = components(v)
        tg = targets(pre_comps, attr, value)
        verdicts = [recognise(t) for t in tg]
        may_succeed = any(vd[0] != INVALID for vd in verdicts)
        may_fail = not tg or any(vd[0] != VALID for vd in verdicts)
        what = "step %d: %s = %r on %r" % (step, attr, value, pre[0])
        labels.add("assign:" + attr)
        if value is None:
            labels.add("value:none")
        elif value == "":
            labels.add("value:empty")
        elif any(c not in VERSION_ALPHABET for c in value):
            labels.add("value:foreign-char")
        elif ":" in value or "-" in value:
            labels.add("value:colon-or-hyphen")
        else:
            labels.add("value:plain")
        try:
            setattr(v, attr, value)
            ok = True
        except ValueError:
            ok = False
        except TypeError as e:
            if attr != "full_version" and value is None:
                raise Violation("assign-none-upstream-not-rolled-back" if attr == "upstream_version"
                                else "assign-none-raises-typeerror",
                                "%s raises TypeError(%s); afterwards str=%r components=%r"
                                % (what, e, str(v), components(v)))
            raise
        post = observe(v)
        same_as_fresh(v, what)
        if not ok:
            rejected += 1
            labels.add("rejected-assignment")
            if post != pre:
                raise Violation("rollback-incomplete", "%s raised ValueError but state went from %r to %r"
                                % (what, pre, post))
            if not may_fail:
                raise Violation("assign-rejects-valid", "%s raised ValueError although %r is valid"
                                % (what, tg))
            if any(vd[0] == UNSPECIFIED for vd in verdicts):
                labels.add("unspecified-target-rejected")
            continue
        accepted += 1
        labels.add("accepted-assignment")
        got = post[0]
        if not may_succeed:
            # which root cause let it through?
            if tg and got in tg:
                raise Violation(accepted_invalid_sig(got), "%s is accepted, giving %r" % (what, got))
            raise Violation("assign-accepts-invalid", "%s is accepted, giving %r (no valid recomposition; "
                            "candidates %r)" % (what, got, tg))
        hit = [(t, vd) for t, vd in zip(tg, verdicts) if t == got and vd[0] != INVALID]
        if not hit:
            raise Violation("assign-wrong-result", "%s gives %r, expected %s"
                            % (what, got, " or ".join(repr(t) for t in tg)))
        t, (vd, pp) = hit[0]
        if vd == UNSPECIFIED:
            labels.add("unspecified-target-accepted")
        check_decomposition(v, t, vd, pp, "assign-")
    for (nm, s_), st_ in zip(siblings, sib_state):
        if observe(s_) != st_:
            raise Violation("assignment-leaks-between-objects", "at the end: %s went from %r to %r "
                            "although only the original was assigned to" % (nm, st_, observe(s_)))
    labels.add("rejections:%d" % min(rejected, 3))
    if rejected and accepted:
        labels.add("mixed-accept-reject")
    return (rejected >= 1, sorted(labels))


def _piece(x):
    """[text, repeat] -> text * repeat (long components are written compactly in the case)."""
    if x is None:
        return None
    if (isinstance(x, list) and len(x) == 2 and isinstance(x[0], str) and isinstance(x[1], int)
            and 0 < x[1] * len(x[0]) <= 200000):
        return x[0] * x[1]
    raise TypeError


def check_big(case):
    """Long components (thousands of digits or letters: beyond any conversion or buffer limit of
    the interpreter) are ordinary members of the version alphabet: construction, str(), the
    split, recomposition and component assignment behave as for short ones.  Ordering and hashing
    of such versions are not asked for here (C03's subject; digit runs beyond the interpreter's
    int() limit cannot be ordered by this implementation on this interpreter)."""
    try:
        e, u, r = _piece(case.get("epoch")), _piece(case.get("upstream")), _piece(case.get("revision"))
        asg = case.get("assign")
        if asg is not None:
            if asg[0] not in ATTRS[:3]:
                raise TypeError
            asg = (asg[0], _piece(asg[1]))
    except (TypeError, IndexError, KeyError):
        return (False, ("invalid-case-skipped",))
    s = recompose(e, u, r)
    if s is None:
        return (False, ("invalid-case-skipped",))
    verdict, parts = recognise(s)
    if verdict != VALID:
        return (False, ("invalid-case-skipped",))
    labels = set(["kind:long-components", "longest-component:%d" % max(len(x) for x in (e, u, r) if x)])
    for cls in (Version, debian_support.NativeVersion, debian_support.BaseVersion):
        try:
            v = cls(s)
        except ValueError:
            raise Violation("rejects-valid-version", "%s(<%d characters: %s>) raises ValueError"
                            % (cls.__name__, len(s), short(s, 60)))
        check_decomposition(v, s, verdict, parts, "")
    v = Version(s)
    if asg is not None:
        pre = (str(v), components(v))
        comps = list(components(v))
        comps[ATTRS.index(asg[0])] = asg[1]
        t = recompose(*comps)
        vd, pp = recognise(t)
        labels.add("assign-long:" + asg[0])
        try:
            setattr(v, asg[0], asg[1])
        except ValueError:
            if vd == VALID:
                raise Violation("assign-rejects-valid", "%s = <%d characters: %s> on %s raised ValueError"
                                % (asg[0], len(asg[1]), short(asg[1], 40), short(pre[0], 60)))
            if (str(v), components(v)) != pre:
                raise Violation("rollback-incomplete", "refused %s = <%d characters> changed the object"
                                % (asg[0], len(asg[1])))
            return (True, sorted(labels))
        if vd == INVALID:
            raise Violation("assign-accepts-invalid", "%s = <%d characters: %s> accepted"
                            % (asg[0], len(asg[1]), short(asg[1], 40)))
        if vd == VALID:
            check_decomposition(v, t, vd, pp, "assign-")
    return (True, sorted(labels))


def big_cases():
    sizes = [4299, 4300, 4301, 5000, 70000]
    for n in sizes:
        yield {"kind": "big", "epoch": ["9", n], "upstream": ["1", 1], "revision": None}
        yield {"kind": "big", "epoch": ["10", n // 2 + 1], "upstream": ["1.0", 1], "revision": ["1", 1]}
        yield {"kind": "big", "epoch": None, "upstream": ["7", n], "revision": None}
        yield {"kind": "big", "epoch": ["1", 1], "upstream": ["1.", n // 2], "revision": ["3", n]}
        yield {"kind": "big", "epoch": None, "upstream": ["a~", n // 2 + 1], "revision": ["z+", n // 2 + 1]}
        for attr in ATTRS[:3]:
            for piece in (["8", n], ["1a", n // 2 + 1]) + ((["-", 1], [":", 1], ["9_", n // 2 + 1]) if n == 4301 else ()):
                yield {"kind": "big", "epoch": ["2", 1], "upstream": ["1.0", 1], "revision": ["1", 1],
                       "assign": [attr, piece]}
                yield {"kind": "big", "epoch": None, "upstream": ["1.0", 1], "revision": None,
                       "assign": [attr, piece]}


def check(case):
    kind = case.get("kind") if isinstance(case, dict) else None
    if kind == "big":
        return check_big(case)
    if kind == "string":
        s = case.get("s")
        if not isinstance(s, str):
            return (False, ("invalid-case-skipped",))
        return check_string(s)
    if kind == "history":
        start, ops = case.get("start"), case.get("ops")
        if not isinstance(start, str) or not isinstance(ops, list):
            return (False, ("invalid-case-skipped",))
        return check_history(start, ops)
    return (False, ("invalid-case-skipped",))


# ------------------------------------------------------------------------------------------
# generators


def enum_strings(maxlen):
    def gen_strings():
        for n in range(0, maxlen + 1):
            for t in itertools.product(ENUM_ALPHABET, repeat=n):
                yield {"kind": "string", "s": "".join(t)}
    return gen_strings


FOREIGN = [" ", "\n", "\n", "_", "\u0661", "\u0663", "\u00e9", "\t", "\r", "\uff11", "\u00b2", "\uff21",
           "/", "*", "@", ",", ";", "=", "(", "!", "%", "\x00", "\x7f", "\u2028", "\x0b", "\x0c", "\x1c",
           "\x85", "\u00a0", "\u0131", "\u017f", "\u212a", "\U0001d7d9", "\u0967", "\\", "$", "^", "|"]
STRUCT = [":", "-", ":", "-", "~", "+", ".", "0", "a"]
_FOREIGN = st.sampled_from(FOREIGN * 3 + STRUCT)
_PLACE = st.sampled_from(["first", "last", "last", "before-colon", "after-colon", "before-hyphen",
                          "after-hyphen", "any", "any"])
_ACTION = st.sampled_from(["insert", "insert", "replace", "delete"])
_POS = st.integers(0, 60)
_VERSION = gen.version_st()
_NMUT = st.sampled_from([0, 1, 1, 1, 1, 2, 2])


def mutate_string(s, place, action, pos, ch):
    """One character-level edit at a structurally interesting position."""
    n = len(s)
    if place == "first":
        i = 0
    elif place == "last":
        i = n if action == "insert" else max(n - 1, 0)
    elif place in ("before-colon", "after-colon"):
        c = s.find(":")
        if c < 0:
            i = pos % (n + 1)
        else:
            i = c if place == "before-colon" else c + 1
            if action != "insert" and place == "before-colon":
                i = max(c - 1, 0)
    elif place in ("before-hyphen", "after-hyphen"):
        h = s.rfind("-")
        if h < 0:
            i = pos % (n + 1)
        else:
            i = h if place == "before-hyphen" else h + 1
            if action != "insert" and place == "before-hyphen":
                i = max(h - 1, 0)
    else:
        i = pos % (n + 1)
    if action == "insert" or n == 0:
        return s[:i] + ch + s[i:]
    i = min(i, n - 1)
    if action == "replace":
        return s[:i] + ch + s[i + 1:]
    return s[:i] + s[i + 1:]


@st.composite
def _mutated_string(draw):
    s = draw(_VERSION)
    for _ in range(draw(_NMUT)):
        s = mutate_string(s, draw(_PLACE), draw(_ACTION), draw(_POS), draw(_FOREIGN))
    return {"kind": "string", "s": s}


MUTATED_STRING = _mutated_string()

# assignment values
_EPOCH_VALUES = st.sampled_from([None, None, None, "0", "0", "1", "12", "007", "00", "", "1:", "a", "-1", "1 ",
                                 "1\n", "\u0661", "\uff11", "+1", " 1", "1.0", "0x1", "\u00b2"])
_PLAIN_UP = gen.upstream_st(False, False)
_HYPH_UP = gen.upstream_st(True, False)
_COLON_UP = gen.upstream_st(True, True)
_REV = gen.revision_st()
_SMALL = st.sampled_from(["", "1", "0", "1.0", "a", "~", "1-1", "1-", "-1", "-", "1:1", ":", "1:", ":1", "a:1",
                          "1.0\n", "\n", "1 0", "1_0", "\u00e9", "1\u0661", "1.0-1", "2:1.0", "x:1-1-1", " "])


@st.composite
def _spoiled(draw, base):
    return mutate_string(draw(base), draw(_PLACE), draw(_ACTION), draw(_POS), draw(_FOREIGN))


_UP_VALUES = st.one_of(st.none(), _PLAIN_UP, _HYPH_UP, _COLON_UP, _SMALL, _spoiled(_PLAIN_UP))
_REV_VALUES = st.one_of(st.none(), _REV, _REV, _SMALL, _HYPH_UP, _spoiled(_REV))
_FULL_VALUES = st.one_of(_VERSION, MUTATED_STRING.map(lambda c: c["s"]), _SMALL)
_ATTR = st.sampled_from(ATTRS + ["epoch", "upstream_version", "debian_revision"])
_VALUES = {"epoch": _EPOCH_VALUES, "upstream_version": _UP_VALUES, "debian_revision": _REV_VALUES,
           "debian_version": _REV_VALUES, "full_version": _FULL_VALUES}
_NOPS = st.integers(1, 6)


@st.composite
def _history(draw):
    start = draw(_VERSION)
    ops = []
    for _ in range(draw(_NOPS)):
        attr = draw(_ATTR)
        ops.append([attr, draw(_VALUES[attr])])
    return {"kind": "history", "start": start, "ops": ops}


HISTORY = _history()


# ------------------------------------------------------------------------------------------
# dpkg --validate-version as a second opinion on the recogniser (not on the library)


def dpkg_checkable(s):
    if s == "" or s[0] not in "0123456789" or "\x00" in s:
        return False
    if s != s.strip(" \t\n\r\x0b\x0c"):
        return False        # dpkg trims blanks before parsing
    head = s.split(":", 1)[0] if ":" in s else ""
    if head and all(c in "0123456789" for c in head) and int(head) > dpkgmodel.INT_MAX:
        return False        # dpkg limits the epoch to INT_MAX; the grammar does not
    return True


def validate_recogniser(dpkg, s, rec):
    verdict = recognise(s)[0]
    rc, err = dpkg.validate(s)
    if rc == 1 and "does not start with digit" in err:
        rec.note("dpkg-skipped:upstream-not-digit-led", 1)     # a Policy 'should'; dpkg only warns
        return
    if verdict == VALID and rc != 0:
        raise dpkgmodel.ModelError("recogniser says VALID for %r but dpkg --validate-version exits %d" % (s, rc))
    if verdict == INVALID and rc == 0:
        raise dpkgmodel.ModelError("recogniser says INVALID for %r but dpkg --validate-version accepts it" % s)
    if verdict == UNSPECIFIED:
        rec.note("dpkg-on-unspecified:" + ("accepts" if rc == 0 else "rejects"), 1)
    rec.note("dpkg-binary-strings", 1)


def dpkg_phase_factory(n_enum, n_hyp, maxlen):
    def dpkg_phase(shard, nshards, seed, deadline, rec):
        import hypothesis
        from hypothesis import given, settings, HealthCheck, Phase
        dpkg = dpkgmodel.DpkgBinary()
        if not dpkg.available:
            rec.note("dpkg-binary-missing", 1)

        def one(case):
            if rec.expired():
                return
            if dpkg.available and dpkg_checkable(case["s"]):
                validate_recogniser(dpkg, case["s"], rec)
            rec.case(case)

        # digit-led strings of the enumeration alphabet, evenly spread over the whole space
        digit_led = [c for c in ENUM_ALPHABET if c in "01"]
        k = len(ENUM_ALPHABET)
        space = len(digit_led) * k ** (maxlen - 1)
        from .c03 import spread_indices
        for t in spread_indices(space // nshards, n_enum, seed):
            idx = t * nshards + shard
            idx, d = divmod(idx, len(digit_led))
            chars = [digit_led[d]]
            for _ in range(maxlen - 1):
                idx, c = divmod(idx, k)
                chars.append(ENUM_ALPHABET[c])
            s = "".join(chars)
            one({"kind": "string", "s": s})
            one({"kind": "string", "s": s[:1 + (t % maxlen)]})
        st_ = settings(max_examples=n_hyp, database=None, deadline=None, derandomize=False,
                       phases=[Phase.generate], print_blob=False, suppress_health_check=list(HealthCheck))
        hypothesis.seed(seed)(st_(given(MUTATED_STRING)(one)))()
        rec.note("dpkg-binary-calls", dpkg.calls)
    return dpkg_phase


def sources(tier):
    if tier == "quick":
        return [Enum("strings<=4", enum_strings(4), EXHAUSTIVE["quick"]),
                Enum("long-components", big_cases, "epoch / upstream / revision of 4299..70000 characters, constructed and assigned"),
                Hyp("mutated-versions", MUTATED_STRING, 2500, shards=4),
                Hyp("assignment-histories", HISTORY, 1500, shards=6),
                Custom("dpkg-validate", dpkg_phase_factory(250, 400, 6), shards=3)]
    return [Enum("strings<=5", enum_strings(5), EXHAUSTIVE["thorough"]),
            Enum("long-components", big_cases, "epoch / upstream / revision of 4299..70000 characters, constructed and assigned"),
            Hyp("mutated-versions", MUTATED_STRING, 30000, shards=16),
            Hyp("assignment-histories", HISTORY, 12000, shards=16),
            Custom("dpkg-validate", dpkg_phase_factory(1500, 3000, 7), shards=16)]
