"""C03 - version comparison agrees with dpkg and is a consistent total preorder; equal => equal hash.

cases:
  {"kind": "pair",    "a": version, "b": version}
  {"kind": "pair",    "a": version, "b": version, "cls": [class name, class name]}
  {"kind": "pair",    "a": version, "b": version, "cls": [class name, "str"]}   (or ["str", class name])
  {"kind": "pair",    "a": version, "b": version, "edits": [[attribute, value], ...]}
  {"kind": "triple",  "vs": [version, version, version]}
  {"kind": "objects", "a": version, "b": version, "cls": class name, "warm": bool,
                      "dups": [[source index, how], ...], "edits": [[object index, attribute, value], ...],
                      "order": 0..3}

Every version must be a syntactically valid version string (model/c14_recogniser says VALID);
anything else is skipped with the label ``invalid-case-skipped``.  Digit runs may be of any
length (the references compare them exactly; the enumerated / generated ones go up to ~165
characters).

``edits`` are assignment *attempts* (attribute one of full_version / epoch / upstream_version /
debian_revision; value any string, or null for epoch / debian_revision) made one after the other
on ONE live ``Version(a)`` that has already been compared and hashed.  The library may accept an
attempt (the object then stands for another version string) or refuse it with ValueError; either
way, as long as ``str(object)`` is a valid version string S, the object has to order and hash
exactly like a fresh ``Version(S)`` -- against that fresh object, against ``Version(b)`` and against
``Version(a)``, in both operand orders.  Whether an attempt *should* be accepted is not judged here
(that is C14's business).

``cls`` names the class each operand is built with: Version, NativeVersion, UserVersion / TaggedVersion
(two user subclasses of Version defined below: nothing added / one extra plain attribute) or BaseVersion
(the common base class, which cannot compare on its own and therefore only ever faces an operand of one
of the other classes; a pair of two BaseVersion is skipped).  The library compares any two objects of the
family with each other, so every clause - order as dpkg, trichotomy, antisymmetry, equal => equal hash,
one set element, dict look-up - is demanded for every combination of classes.

A ``cls`` entry "str" means that operand is given to the operators as the PLAIN VERSION STRING (the library converts a
non-version operand itself; the repository's own test_comparisons compares (str, NativeVersion) and (NativeVersion, str)).
The other operand is an object of Version / NativeVersion / a user subclass (never BaseVersion, never a second string).
Demanded: all six operators, object on the left and string on the right AND string on the left and object on the right
(Python then calls the object's reflected operator), answer exactly as dpkg orders the two version strings; ``in`` /
``count`` on a one-element list follow ``==``; version_compare() given the object and the string agrees.  NOT demanded: any
relation between hash(string) and hash(object) - a plain string is not a version object (on the unchanged tree they differ).

``objects``: object 0 is cls(a); every entry of ``dups`` adds a live object obtained from an earlier one
(source index modulo the number of objects so far) by ``how`` = copy (copy.copy), deepcopy, pickle0..5
(round trip with that protocol), ctor (type(obj)(obj), the documented "Version from a version object"),
ctor:<Class> (another class of the family from the object) or str (type(obj)(str(obj)), the control).
``warm`` = the original was compared and hashed before being duplicated.  ``edits`` are assignment
attempts on any of the live objects (object index modulo their number).  After every attempt ALL live
objects are observed (in index order, or in reverse when order & 1; also once before the first attempt
unless order & 2): as long as every object shows a valid string, each must order and hash like a fresh
Version of the string it shows - against that fresh object, against Version(b) and against every other
live object.  What string a duplicate shows is not judged (only that it behaves like it); a way of
duplicating that raises (copy / deepcopy / pickle) is counted under ``dup-unavailable:*`` and skipped -
the property does not promise copy or pickle support (on the unchanged tree all of them work).
"""
import copy
import itertools
import pickle

from hypothesis import strategies as st

from ..core import Violation, Enum, Hyp, Custom, short
from ..model import c03_dpkgcmp as ref
from ..model.c14_recogniser import recognise, VALID
from ..gen import c03_versions as gen

from debian.debian_support import BaseVersion, NativeVersion, Version, version_compare

ID = "C03"
LEVEL = "exploration"
RULE = ("cases are ordered pairs (and triples) of valid version strings; enumerated: ALL ordered pairs "
        "of a version pool (every digit-led string <=3 chars and every other string <=2 chars over "
        "{0,1,9,a,Z,+,.,~}, plus representative upstreams x epochs {absent,0,1,00,01} x revisions "
        "{absent,0,00,1,~,a,1~}, hyphens/colons inside the upstream part); thorough adds an evenly "
        "spread sample of the ordered pairs of the <=4/<=3-char pool; generated: grammar versions "
        "(components up to ~12 chars) paired with 1-3 step mutations of themselves (zero padding, "
        "absent<->0 epoch/revision, '~' insertion, punctuation/letter swaps, appended suffixes), "
        "and mutation triples; a sample is first put to the real dpkg to validate the reference. "
        "LONG DIGIT RUNS: enumerated - all ordered pairs within each of four lists "
        "(gen.c03_versions.long_run_groups): '1.N' for ~130 numbers N (small values x 0/1/9/17/18/19/20/40 "
        "padding zeros; 2^31, 2^32, 2^53, 2^63, 2^64 and neighbours, values differing by multiples of "
        "2^32/2^64, 19/20/21/39/40/120-digit values differing in the first, the last or a middle digit, each "
        "x 0/1/20 zeros; all-zero runs of 1..41), 12 of those numbers followed by '', -1, -2, +b1, .5, ~, "
        "the same numbers bare / after a letter / in the revision / after an epoch, and as the epoch "
        "itself; generated - a number of 1..100 digits, 1-2 nearby numbers (one digit changed, a digit "
        "dropped/added, +-1, + k*2^32, + k*2^64), independent padding of 0..45 zeros each, in a common "
        "frame (upstream / revision / epoch) whose tail and revision may differ; the longest run is ~165 "
        "characters (well below Python's 4300-digit int() limit, which is NOT explored). "
        "ASSIGNMENT ATTEMPTS ON A LIVE OBJECT ('edits'): enumerated - 16 start versions x 16 donor versions x "
        "20 value templates built from the donor's parts over the version alphabet (a letter before the "
        "epoch, a trailing hyphen, an empty epoch, a colon after the revision, a non-numeric epoch, a colon "
        "or trailing hyphen in the revision, a hyphen/colon in the upstream part, and three accepted ones), "
        "each template alone on a fresh object and all 20 in succession on one object (two rotations); "
        "generated - near-miss pairs with 1-4 attempts (a template of the second version / of an independent "
        "donor, or a free string of <=6 characters over {0,1,a,Z,.,+,~,:,-}). "
        "OPERAND CLASSES ('cls'): enumerated - ALL ordered pairs of a 36-version pool rich in equal-but-differently-"
        "spelled versions (gen.c03_versions.CLASS_POOL) x all 24 ordered pairs of classes out of Version, "
        "NativeVersion, two user subclasses of Version and BaseVersion (never both BaseVersion); generated - near-miss "
        "pairs with independently drawn classes. "
        "AN OPERAND THAT IS A PLAIN STRING ('cls' with 'str'): enumerated - ALL ordered pairs of a 138-version pool "
        "(gen.c03_versions.string_operand_pool: the 36-version class pool plus 12 upstream parts holding one or more "
        "hyphens - first, last, doubled, next to '~' - x epoch absent/1 x 3 revisions, i.e. 80 versions with two or more "
        "hyphens, 6 upstream parts holding colons, and their separator-free neighbours) x (Version object against the string, "
        "NativeVersion object against the string, and - taking turns - a user-subclass object against the string or the "
        "case spelled string-first); every case evaluates the six operators in BOTH operand orders, so every version of "
        "the pool is the string on either side of every version as Version and as NativeVersion object; generated - near-miss pairs, three out of four from a separator-rich variant "
        "of the full grammar (revision present 3/4, hyphens / colons allowed in the upstream part every second time), "
        "the string on either side, the object of any of the four classes. Every live object of the 'edits' / 'objects' "
        "cases is also compared (six operators, object on the left) with the other versions of its case given as plain "
        "strings. "
        "OBJECTS OBTAINED ANOTHER WAY ('objects'): enumerated - 6 start versions x 4 donors x 8 ways of duplicating "
        "(copy.copy, copy.deepcopy, pickle protocols 2 and 5, the constructor called with the object / with its string / "
        "of another class) x 7 assignment attempts built from the donor x attempt on the original or on the duplicate x "
        "original compared and hashed before duplication or not, class of the original and observation order rotating; "
        "for one donor per start all 64 two-step chains (a duplicate of the duplicate or a second duplicate of the "
        "original) with four attempts spread over the three objects; all 14 ways of duplicating alive together and "
        "unchanged; generated - near-miss pairs, 1-3 duplicates of earlier objects (any way, pickle protocols 0-5) and "
        "0-4 attempts (donor parts, the 20 templates, free strings) on any of the objects. "
        "Non-trivial = the two strings differ AND at least one of: a '~' occurs, a digit run has a "
        "leading zero, a digit run is longer than 18 characters, epoch absent on one side and present on "
        "the other, revision absent on one side "
        "and present on the other, or at the first differing position of the deciding component a "
        "digit faces a non-digit or the end of one string faces a non-digit (triples: some pair is "
        "non-trivial); a case with edits is also non-trivial when an attempt whose resulting string "
        "consists of version-alphabet characters only was refused and the object was then "
        "compared; a pair with classes is also non-trivial when the classes differ and the versions are equal "
        "(identical strings included: the hash clause across classes); a pair with a string operand is also non-trivial "
        "when that string holds two or more hyphens or two or more colons, or the versions are equal; an objects case is non-trivial when at least "
        "two objects are alive and at least one attempt was made and observed; "
        "distinct = distinct canonical JSON of the case")
ASSUMPTIONS = [
    "reference = own port of dpkg lib/dpkg/version.c (order/verrevcmp/dpkg_version_compare) AND an "
    "independent zero-padded sort-key formulation; the two are compared on every evaluated pair "
    "(disagreement = harness error, exit 2); numbers of any width are exact in both: the port compares "
    "digit by digit (epoch included), the sort key uses unbounded Python integers",
    "/usr/bin/dpkg --compare-versions (1.21.22 here) validates the reference on a sample, including a "
    "spread sample of the long-digit-run pairs (dpkg compares upstream/revision digit runs of any length "
    "digit by digit; versions whose EPOCH exceeds INT_MAX are never handed to it); if the binary "
    "is missing the note counter dpkg-binary-missing is set and the phase only runs the oracle",
    "a live Version object stands for the version string str(object) shows: after an accepted or a "
    "refused assignment it must order and hash like a fresh Version of that string (only observed "
    "while that string is valid per model/c14_recogniser); ValueError is the only exception an "
    "assignment may raise",
    "a version object is a version object however obtained: objects of every class of the family (Version, "
    "NativeVersion, user subclasses, BaseVersion as one of two operands) compare with each other on the unchanged tree "
    "and are therefore held to all clauses; copies (copy.copy, copy.deepcopy, pickle round trip, constructor called "
    "with an object) are separate objects, each standing for the string it shows itself - that the copy shows the "
    "same string as its source is NOT demanded here, nor that copying is possible at all",
    "a valid version string given directly as one operand of <, <=, ==, !=, >=, > (either side) stands for that version: "
    "the statement orders 'version strings a and b' by 'the comparison operators', the library converts a non-version "
    "operand itself and its own suite compares (str, NativeVersion) / (NativeVersion, str); two plain strings are never "
    "compared (that is Python's string order), BaseVersion never faces a string (it cannot compare), and nothing is "
    "demanded of hash(string)",
    "version syntax as decided by model/c14_recogniser (letter-led upstream versions count as valid: the "
    "repository's own tests compare '0' < 'a'; dpkg only warns)",
    "PYTHONHASHSEED=0 (boot.py); equal hashes are demanded only where the reference says 'equal'",
    "Hypothesis 6.168 generators; sha1 for distinctness",
]
EXHAUSTIVE = {"quick": "all ordered pairs of the quick version pool (gen.c03_versions.pool('quick')); all ordered "
                       "pairs within each long-digit-run list (gen.c03_versions.long_run_groups()); every start x "
                       "donor x assignment template of gen.c03_versions.edit_cases(); all ordered pairs of "
                       "gen.c03_versions.CLASS_POOL x all 24 class pairs; every case of gen.c03_versions.object_cases(); "
                       "all ordered pairs of gen.c03_versions.string_operand_pool() x 3 (class, str) operand pairs",
              "thorough": "all ordered pairs of the quick version pool (the larger pool is sampled, not exhausted); "
                          "all ordered pairs of the whole long-digit-run pool (gen.c03_versions.long_run_pool()); "
                          "every start x donor x assignment template of gen.c03_versions.edit_cases(); all ordered "
                          "pairs of gen.c03_versions.CLASS_POOL x all 24 class pairs; every case of "
                          "gen.c03_versions.object_cases(); all ordered pairs of gen.c03_versions.string_operand_pool() "
                          "x 3 (class, str) operand pairs"}
BUDGET = {"quick": 200, "thorough": 1500}

DIGITS = "0123456789"


class UserVersion(Version):
    """What an application derives when it only wants its own type: nothing added."""


class TaggedVersion(Version):
    """What an application derives to carry extra data: one plain attribute next to the version."""

    def __init__(self, version):
        super(TaggedVersion, self).__init__(version)
        self.tag = "origin"


CLASSES = {"Version": Version, "NativeVersion": NativeVersion, "UserVersion": UserVersion,
           "TaggedVersion": TaggedVersion, "BaseVersion": BaseVersion}


def _valid(v):
    return isinstance(v, str) and recognise(v)[0] == VALID


def _has_leading_zero(v):
    prev_digit = False
    for i, c in enumerate(v):
        if c == "0" and not prev_digit and i + 1 < len(v) and v[i + 1] in DIGITS:
            return True
        prev_digit = c in DIGITS
    return False


def _first_diff(x, y):
    i = 0
    while i < len(x) and i < len(y) and x[i] == y[i]:
        i += 1
    cx = x[i] if i < len(x) else None
    cy = y[i] if i < len(y) else None
    return cx, cy


def _longest_digit_run(v):
    best = n = 0
    for c in v:
        n = n + 1 if c in DIGITS else 0
        if n > best:
            best = n
    return best


def features(a, b):
    """Labels describing which rarely-combined features the pair exercises."""
    ea, ua, ra = ref.split(a)
    eb, ub, rb = ref.split(b)
    f = set()
    if len(a) > 9 or len(b) > 9:
        la, lb = _longest_digit_run(a), _longest_digit_run(b)
        for w in (9, 18, 20, 39):
            if la > w or lb > w:
                f.add("digit-run>%d" % w)
        if (la > 18 or lb > 18) and la != lb:
            f.add("digit-run>18:widths-differ")
    if "~" in a or "~" in b:
        f.add("tilde")
    if _has_leading_zero(a) or _has_leading_zero(b):
        f.add("leading-zeros")
    if (ea is None) != (eb is None):
        f.add("epoch-absent-vs-present")
        if ref.number(ea or "0") == 0 and ref.number(eb or "0") == 0:
            f.add("epoch-absent-vs-0")
    if (ra is None) != (rb is None):
        f.add("revision-absent-vs-present")
        if (ra or rb).strip("0") == "":
            f.add("revision-absent-vs-0")
    # the component that decides (first one whose spelling differs)
    if ref.number(ea or "0") != ref.number(eb or "0"):
        f.add("decided-by:epoch")
    else:
        x, y = (ua, ub) if ua != ub else (ra or "", rb or "")
        if ua != ub or (ra or "") != (rb or ""):
            cx, cy = _first_diff(x, y)
            dx = cx is not None and cx in DIGITS
            dy = cy is not None and cy in DIGITS
            if (dx and cy is not None and not dy) or (dy and cx is not None and not dx):
                f.add("digit-vs-nondigit")
            if (cx is None and cy is not None and not dy) or (cy is None and cx is not None and not dx):
                f.add("end-vs-nondigit")
                if "~" in (cx, cy):
                    f.add("tilde-vs-end")
            if cx is not None and cy is not None and not dx and not dy and cx.isalpha() != cy.isalpha():
                f.add("letter-vs-other")
    if ua[0] not in DIGITS or ub[0] not in DIGITS:
        f.add("non-digit-led")
    if ":" in ua or ":" in ub:
        f.add("colon-in-upstream")
    if "-" in ua or "-" in ub:
        f.add("hyphen-in-upstream")
    return f


NONTRIVIAL_FEATURES = frozenset(["tilde", "leading-zeros", "epoch-absent-vs-present", "revision-absent-vs-present",
                                 "digit-vs-nondigit", "end-vs-nondigit", "digit-run>18"])


def decided_by(a, b, r):
    if r == 0:
        return "equal"
    ea, ua, ra = ref.split(a)
    eb, ub, rb = ref.split(b)
    if ref.number(ea or "0") != ref.number(eb or "0"):
        return "epoch"
    if ref.verrevcmp(ua, ub) != 0:
        return "upstream"
    return "revision"


def check_pair(a, b, ca=Version, cb=Version):
    """All clauses for the ordered pair (a, b), the operands being ca(a) and cb(b) (classes of the version
    family, not both BaseVersion); returns (reference verdict, library verdict)."""
    r = ref.reference(a, b)          # ModelError (harness) if the two formulations disagree
    va, vb = ca(a), cb(b)
    lt, eq, gt = bool(va < vb), bool(va == vb), bool(va > vb)
    le, ne, ge = bool(va <= vb), bool(va != vb), bool(va >= vb)
    if ca is Version and cb is Version:
        what = "%r vs %r" % (a, b)
    else:
        what = "%s(%r) vs %s(%r)" % (ca.__name__, a, cb.__name__, b)
    if lt + eq + gt != 1:
        raise Violation("trichotomy", "%s: <,==,> give %s,%s,%s (dpkg: %d)" % (what, lt, eq, gt, r))
    lib = -1 if lt else (0 if eq else 1)
    if lib != r:
        raise Violation("order-differs-from-dpkg:" + decided_by(a, b, r),
                        "%s: operators say %d, dpkg says %d" % (what, lib, r))
    if le != (r <= 0) or ne != (r != 0) or ge != (r >= 0):
        raise Violation("operators-inconsistent", "%s: <=,!=,>= give %s,%s,%s but dpkg says %d"
                        % (what, le, ne, ge, r))
    vc = version_compare(a, b)
    if type(vc) is not int or ref.sign(vc) != r:
        raise Violation("version_compare-differs", "%s: version_compare gives %r, dpkg says %d" % (what, vc, r))
    vcr = version_compare(b, a)
    if vcr != -vc:
        raise Violation("antisymmetry", "%s: compare(a,b)=%r but compare(b,a)=%r" % (what, vc, vcr))
    rlt, req, rgt = bool(vb < va), bool(vb == va), bool(vb > va)
    if (rlt, req, rgt) != (gt, eq, lt):
        raise Violation("antisymmetry", "%s: reversed operators give <,==,> = %s,%s,%s" % (what, rlt, req, rgt))
    if ca is not Version or cb is not Version:
        # version_compare() also takes version objects (it builds its own Version from each)
        vo = version_compare(va, vb)
        if type(vo) is not int or ref.sign(vo) != r:
            raise Violation("version_compare-differs", "%s: version_compare on the objects gives %r, dpkg says %d"
                            % (what, vo, r))
    if r == 0:
        ha, hb = hash(va), hash(vb)
        if ha != hb:
            raise Violation("hash-differs-for-equal-versions",
                            "%s compare equal but hash to %d and %d" % (what, ha, hb))
        if len({va, vb}) != 1:
            raise Violation("set-keeps-equal-versions-apart", "%s: set has %d elements" % (what, len({va, vb})))
        if {va: 1}.get(vb) != 1 or {vb: 1}.get(va) != 1:
            raise Violation("set-keeps-equal-versions-apart", "%s: a dict keyed by one does not find the other" % what)
    if ca is BaseVersion:
        return r, lib               # two BaseVersion objects cannot be compared with each other
    # The same clauses for a version object that *became* b by component assignment after it had
    # been compared and hashed as a: ordering and hash are functions of the current value.
    vm = ca(a)
    hash(vm), vm == vb, vm < vb
    try:
        if vb.epoch is not None:
            vm.epoch = vb.epoch
        vm.upstream_version = vb.upstream_version
        vm.debian_revision = vb.debian_revision
        if vb.epoch is None:
            vm.epoch = None
    except ValueError:
        vm = None       # an intermediate combination was not a valid version: nothing to observe
    if vm is not None and str(vm) == b:
        if not (vm == vb) or vm < vb or vm > vb or hash(vm) != hash(vb) or len({vm, vb}) != 1:
            raise Violation("assigned-object-differs-from-fresh",
                            "%s(%r) turned into %r by component assignment: ==,<,> with %s(%r) "
                            "give %s,%s,%s; hashes %d and %d" % (ca.__name__, a, b, cb.__name__, b, vm == vb, vm < vb,
                                                                vm > vb, hash(vm), hash(vb)))
        if bool(vm < va) != (r > 0) or bool(vm > va) != (r < 0):
            raise Violation("assigned-object-differs-from-fresh",
                            "%s(%r) turned into %r by component assignment orders against "
                            "%s(%r) as <:%s >:%s, dpkg says %d" % (ca.__name__, a, b, ca.__name__, a, vm < va, vm > va, -r))
    return r, lib


def check_string_operand(a, b, ca, cb):
    """One operand is the plain version string (ca or cb is str), the other an object of a family class: the six
    operators in both operand orders, membership and version_compare must follow dpkg's order of (a, b)."""
    r = ref.reference(a, b)
    x = a if ca is str else ca(a)
    y = b if cb is str else cb(b)
    what = "%s(%r) vs %s(%r)" % (ca.__name__, a, cb.__name__, b)
    fwd, rev = _ops(x, y), _ops(y, x)
    if fwd != _EXPECT[r]:
        raise Violation("string-operand:order-differs-from-dpkg:" + decided_by(a, b, r),
                        "%s: dpkg orders the versions as %d but <,==,>,<=,!=,>= give %s" % (what, r, fwd))
    if rev != _EXPECT[-r]:
        raise Violation("string-operand:order-differs-from-dpkg:" + decided_by(a, b, r),
                        "%s: dpkg orders the versions as %d but with the operands exchanged <,==,>,<=,!=,>= give %s"
                        % (what, r, rev))
    if (y in [x]) != (r == 0) or (x in [y]) != (r == 0) or [x].count(y) != (r == 0) or [y].count(x) != (r == 0):
        raise Violation("string-operand:membership-unlike-equality",
                        "%s: dpkg says %d; 'in' gives %s / %s, count %d / %d" % (what, r, y in [x], x in [y],
                                                                               [x].count(y), [y].count(x)))
    vc, vcr = version_compare(x, y), version_compare(y, x)
    if type(vc) is not int or ref.sign(vc) != r or vcr != -vc:
        raise Violation("version_compare-differs", "%s: version_compare on these operands gives %r (exchanged: %r), "
                        "dpkg says %d" % (what, vc, vcr, r))
    return r


def string_labels(a, b, ca, r):
    s = a if ca is str else b
    labels = set(["kind:pair+string-operand", "str-operand:" + ("left" if ca is str else "right")])
    rich = False
    if s.count("-") >= 2:
        labels.add("str-operand:two-or-more-hyphens")
        rich = True
    if s.count(":") >= 2:
        labels.add("str-operand:two-or-more-colons")
        rich = True
    if (a if ca is not str else b).count("-") >= 2:
        labels.add("str-operand:object-has-two-or-more-hyphens")
    return rich or r == 0, labels


VERSION_ALPHABET = frozenset("abcdefghijklmnopqrstuvwxyzABCDEFGHIJKLMNOPQRSTUVWXYZ0123456789.+:~-")
EDIT_ATTRS = ("full_version", "epoch", "upstream_version", "debian_revision")


def _ops(x, y):
    return bool(x < y), bool(x == y), bool(x > y), bool(x <= y), bool(x != y), bool(x >= y)


_EXPECT = {-1: (True, False, False, True, True, False),
           0: (False, True, False, True, False, True),
           1: (False, False, True, False, True, True)}


def _attempted_string(s, attr, value):
    """The version string the attempt would produce on an object showing ``s`` (None if not expressible)."""
    if attr == "full_version":
        return value
    e, u, r = ref.split(s)
    if attr == "epoch":
        e = value
    elif attr == "upstream_version":
        u = value
    else:
        r = value
    if u is None:
        return None
    return gen.render(e, u, r or None)


def check_live_object(vm, s, others, history, sig=None):
    """``vm`` shows the valid version string ``s``: it must behave like a fresh Version(s)."""
    fresh = Version(s)
    hv, hf = hash(vm), hash(fresh)
    if _ops(vm, fresh) != _EXPECT[0] or _ops(fresh, vm) != _EXPECT[0] or hv != hf or len({vm, fresh}) != 1:
        raise Violation(sig or "live-object-differs-from-fresh-after-assignment-attempt",
                        "%s: the object shows %r but against a fresh Version(%r) <,==,> give %s (reversed %s), "
                        "hashes %d and %d" % (history, s, s, _ops(vm, fresh)[:3], _ops(fresh, vm)[:3], hv, hf))
    for o in others:
        r = ref.reference(s, o)
        vo = Version(o)
        if _ops(vm, o) != _EXPECT[r]:       # the other version as a plain string operand
            raise Violation(sig or "live-object-ordered-unlike-its-string-after-assignment-attempt",
                            "%s: the object shows %r; dpkg orders %r vs %r as %d but against the plain string %r the "
                            "operators <,==,>,<=,!=,>= give %s" % (history, s, s, o, r, o, _ops(vm, o)))
        if _ops(vm, vo) != _EXPECT[r] or _ops(vo, vm) != _EXPECT[-r]:
            raise Violation(sig or "live-object-ordered-unlike-its-string-after-assignment-attempt",
                            "%s: the object shows %r; dpkg orders %r vs %r as %d but the operators "
                            "<,==,>,<=,!=,>= give %s (reversed operands: %s)"
                            % (history, s, s, o, r, _ops(vm, vo), _ops(vo, vm)))
        if r == 0 and hash(vm) != hash(vo):
            raise Violation("hash-differs-for-equal-versions",
                            "%s: the object shows %r, equal to %r, but they hash to %d and %d"
                            % (history, s, o, hash(vm), hash(vo)))


def check_edits(a, b, edits):
    """Assignment attempts on one live Version(a); returns labels."""
    labels = set()
    vm = Version(a)
    hash(vm), vm == Version(b), vm < Version(b)       # the object has been used before it is touched
    history = "Version(%r)" % a
    others = [b] if a == b else [b, a]
    for attr, value in edits:
        before = str(vm)
        try:
            setattr(vm, attr, value)
            outcome = "accepted"
        except ValueError:
            outcome = "refused"
        history += "; .%s = %r (%s)" % (attr, value, outcome)
        s = str(vm)
        if not _valid(s):
            labels.add("edit:object-shows-invalid-string")     # nothing to demand of the ordering (C14 territory)
            break
        attempted = _attempted_string(before, attr, value) if _valid(before) else None
        clean = bool(attempted) and all(c in VERSION_ALPHABET for c in attempted)
        labels.add("edit:%s:%s" % (outcome, attr))
        if outcome == "refused":
            labels.add("edit:refused:" + ("version-alphabet-only" if clean else "bad-character-or-empty"))
            labels.add("edit:refused:string-" + ("unchanged" if s == before else "changed"))
        check_live_object(vm, s, others, short(history, 300))
    return labels


def _duplicate(obj, how):
    """Another version object obtained from ``obj``; None when that way of copying is not available
    (the property promises nothing about copy / pickle support itself)."""
    if how == "ctor":
        return type(obj)(obj)                   # the documented Version(existing version object)
    if how == "str":
        return type(obj)(str(obj))              # the control: through the string
    if how.startswith("ctor:"):
        return CLASSES[how[5:]](obj)            # an object of another class of the family from this one
    try:
        if how == "copy":
            return copy.copy(obj)
        if how == "deepcopy":
            return copy.deepcopy(obj)
        return pickle.loads(pickle.dumps(obj, int(how[6:])))
    except Exception:                           # noqa: BLE001 - not the property's business
        return None


def _observe(objs, order, others, history):
    """Every live object must behave like a fresh Version of the string it shows, also against the
    other live objects.  Returns False when some object shows an invalid string (nothing to demand)."""
    strings = []
    for o in objs:
        s = str(o)
        if not _valid(s):
            return False
        strings.append(s)
    idx = list(range(len(objs)))
    if order:
        idx.reverse()
    for i in idx:
        check_live_object(objs[i], strings[i], others, "%s; observing object %d" % (history, i),
                          sig="version-object-obtained-another-way-unlike-its-string")
    for i in idx:
        for j in idx:
            if i == j:
                continue
            r = ref.reference(strings[i], strings[j])
            if _ops(objs[i], objs[j]) != _EXPECT[r]:
                raise Violation("version-object-obtained-another-way-unlike-its-string",
                                "%s: object %d shows %r, object %d shows %r; dpkg orders them as %d but the operators "
                                "<,==,>,<=,!=,>= give %s" % (history, i, strings[i], j, strings[j], r,
                                                             _ops(objs[i], objs[j])))
            if r == 0 and (hash(objs[i]) != hash(objs[j]) or len({objs[i], objs[j]}) != 1):
                raise Violation("hash-differs-for-equal-versions",
                                "%s: objects %d and %d show the equal versions %r and %r but hash to %d and %d "
                                "(set of both: %d elements)" % (history, i, j, strings[i], strings[j], hash(objs[i]),
                                                                hash(objs[j]), len({objs[i], objs[j]})))
    return True


def check_objects(a, b, cls, warm, dups, edits, order):
    """Live objects obtained from one another, assignment attempts on any of them; returns labels."""
    labels = set(["cls:" + cls.__name__])
    first = cls(a)
    if warm:
        hash(first), first == Version(b), first < Version(b), Version(b) < first
        labels.add("objects:original-used-before-duplication")
    objs = [first]
    history = "object 0 = %s(%r)%s" % (cls.__name__, a, " (compared and hashed)" if warm else "")
    for src, how in dups:
        src %= len(objs)
        if not _valid(str(objs[src])):
            break
        d = _duplicate(objs[src], how)
        if d is None:
            labels.add("dup-unavailable:" + how)
            continue
        history += "; object %d = %s of object %d" % (len(objs), how, src)
        labels.add("dup:" + ("pickle" if how.startswith("pickle") else how))
        objs.append(d)
    others = [b]
    if order & 2 and edits:
        labels.add("objects:first-observed-after-the-first-attempt")
    elif not _observe(objs, order & 1, others, history):
        labels.add("edit:object-shows-invalid-string")
        return False, labels
    attempted = False
    for who, attr, value in edits:
        who %= len(objs)
        try:
            setattr(objs[who], attr, value)
            outcome = "accepted"
        except ValueError:
            outcome = "refused"
        history += "; object %d .%s = %r (%s)" % (who, attr, value, outcome)
        labels.add("objects:attempt-%s-on-%s" % (outcome, "the-original" if who == 0 else "a-duplicate"))
        if not _observe(objs, order & 1, others, short(history, 400)):
            labels.add("edit:object-shows-invalid-string")
            break
        attempted = True
    labels.add("objects:%d-live" % len(objs))
    if len(objs) > 1 and len(set(str(o) for o in objs)) > 1:
        labels.add("objects:showing-different-strings")
    return attempted and len(objs) > 1, labels


def _usable_object_case(case):
    cls = case.get("cls")
    dups, edits = case.get("dups"), case.get("edits")
    if cls not in gen.FAMILY or not isinstance(dups, list) or not isinstance(edits, list):
        return None
    if len(dups) > 24 or len(edits) > 64:
        return None
    d_out, e_out = [], []
    for d in dups:
        if not (isinstance(d, list) and len(d) == 2 and type(d[0]) is int and d[0] >= 0 and d[1] in gen.HOW_ALL):
            return None
        d_out.append((d[0], d[1]))
    for e in edits:
        if not (isinstance(e, list) and len(e) == 3 and type(e[0]) is int and e[0] >= 0):
            return None
        u = _usable_edits([e[1:]])
        if u is None:
            return None
        e_out.append((e[0],) + u[0])
    order = case.get("order")
    return CLASSES[cls], bool(case.get("warm")), d_out, e_out, order if type(order) is int and 0 <= order <= 3 else 0


def _usable_edits(edits):
    if not isinstance(edits, list) or len(edits) > 64:
        return None
    out = []
    for e in edits:
        if not (isinstance(e, list) and len(e) == 2 and e[0] in EDIT_ATTRS):
            return None
        if not (isinstance(e[1], str) or (e[1] is None and e[0] in ("epoch", "debian_revision"))):
            return None
        out.append((e[0], e[1]))
    return out


def pair_labels(a, b, r):
    f = features(a, b)
    labels = set(f)
    labels.add("decided-by:" + decided_by(a, b, r))
    if a == b:
        labels.add("identical-strings")
    elif r == 0:
        labels.add("equal-different-spelling")
    nontrivial = a != b and bool(f & NONTRIVIAL_FEATURES)
    return nontrivial, labels


def check(case):
    kind = case.get("kind") if isinstance(case, dict) else None
    if kind == "pair":
        a, b = case.get("a"), case.get("b")
        if not (_valid(a) and _valid(b)):
            return (False, ("invalid-case-skipped",))
        edits = None
        if "edits" in case:
            edits = _usable_edits(case["edits"])
            if edits is None:
                return (False, ("invalid-case-skipped",))
        ca = cb = Version
        if "cls" in case and isinstance(case["cls"], list) and "str" in case["cls"]:
            cls = case["cls"]
            if not (len(cls) == 2 and edits is None and sorted(c in gen.FAMILY for c in cls) == [False, True]):
                return (False, ("invalid-case-skipped",))
            ca, cb = [str if c == "str" else CLASSES[c] for c in cls]
            r = check_string_operand(a, b, ca, cb)
            nontrivial, labels = pair_labels(a, b, r)
            nt, sl = string_labels(a, b, ca, r)
            labels.update(sl)
            labels.add("kind:pair")
            labels.add("cls:%s/%s" % (ca.__name__, cb.__name__))
            return (nontrivial or nt, sorted(labels))
        if "cls" in case:
            cls = case["cls"]
            if not (isinstance(cls, list) and len(cls) == 2 and all(isinstance(c, str) and c in CLASSES for c in cls)
                    and cls != ["BaseVersion", "BaseVersion"]):
                return (False, ("invalid-case-skipped",))
            ca, cb = CLASSES[cls[0]], CLASSES[cls[1]]
        r, _ = check_pair(a, b, ca, cb)
        nontrivial, labels = pair_labels(a, b, r)
        labels.add("kind:pair")
        if "cls" in case:
            labels.add("kind:pair+classes")
            labels.add("cls:%s/%s" % (ca.__name__, cb.__name__))
            if ca is not cb:
                labels.add("classes-differ:" + ("equal" if r == 0 else "unequal"))
                nontrivial = nontrivial or r == 0
        if edits:
            el = check_edits(a, b, edits)
            labels.update(el)
            labels.add("kind:pair+edits")
            nontrivial = nontrivial or "edit:refused:version-alphabet-only" in el
        return (nontrivial, sorted(labels))
    if kind == "objects":
        a, b = case.get("a"), case.get("b")
        usable = _usable_object_case(case)
        if usable is None or not (_valid(a) and _valid(b)):
            return (False, ("invalid-case-skipped",))
        nontrivial, labels = check_objects(a, b, *usable)
        labels.add("kind:objects")
        return (nontrivial, sorted(labels))
    if kind == "triple":
        vs = case.get("vs")
        if not (isinstance(vs, list) and len(vs) == 3 and all(_valid(v) for v in vs)):
            return (False, ("invalid-case-skipped",))
        nontrivial = False
        labels = set(["kind:triple"])
        refs = {}
        for i, j in ((0, 1), (1, 2), (0, 2)):
            r, _ = check_pair(vs[i], vs[j])
            refs[(i, j)] = r
            nt, ls = pair_labels(vs[i], vs[j], r)
            nontrivial = nontrivial or nt
            labels.update(ls)
        # transitivity judged on the library's own answers only
        m = [[version_compare(vs[i], vs[j]) for j in range(3)] for i in range(3)]
        for x, y, z in itertools.permutations(range(3)):
            if m[x][y] <= 0 and m[y][z] <= 0:
                strict = m[x][y] < 0 or m[y][z] < 0
                if (strict and not m[x][z] < 0) or (not strict and m[x][z] != 0):
                    raise Violation("transitivity", "%r,%r,%r: compare gives %d, %d but %d for the outer pair"
                                    % (vs[x], vs[y], vs[z], m[x][y], m[y][z], m[x][z]))
        for i in range(3):
            if m[i][i] != 0:
                raise Violation("reflexivity", "%r does not compare equal to itself" % vs[i])
        n_eq = sum(1 for r in refs.values() if r == 0)
        labels.add("triple:%d-equal-pairs" % n_eq)
        return (nontrivial, sorted(labels))
    return (False, ("invalid-case-skipped",))


# ------------------------------------------------------------------------------------------
# sources


def all_pairs(tier):
    def gen_pairs():
        p = gen.pool(tier)
        for a in p:
            for b in p:
                yield {"kind": "pair", "a": a, "b": b}
    return gen_pairs


def long_run_pairs(tier):
    def gen_pairs():
        groups = gen.long_run_groups() if tier == "quick" else [gen.long_run_pool()]
        for g in groups:
            for a in g:
                for b in g:
                    yield {"kind": "pair", "a": a, "b": b}
    return gen_pairs


def _coprime_step(n, frac_num, frac_den):
    """An integer near n*frac coprime to n (low-discrepancy stride through range(n))."""
    import math
    s = max(1, n * frac_num // frac_den)
    while math.gcd(s, n) != 1:
        s += 1
    return s


def spread_indices(n, total, offset):
    """``total`` distinct integers of range(n), evenly spread (golden-ratio stride), shifted by offset."""
    total = min(total, n)
    step = _coprime_step(n, 6180339887, 10000000000)
    idx = offset % n
    for _ in range(total):
        yield idx
        idx = (idx + step) % n


def spread_pairs(pool, total, offset, shard=0, nshards=1):
    """Distinct ordered pairs of ``pool`` spread evenly over the pair square; shard ``shard`` draws
    only pair indices congruent to it modulo ``nshards`` (so shards never overlap)."""
    n = len(pool)
    for t in spread_indices((n * n) // nshards, total, offset):
        i, j = divmod(t * nshards + shard, n)
        yield pool[i], pool[j]


BIG_POOL_SAMPLE = 4000000


def big_pool_phase(shard, nshards, seed, deadline, rec):
    """Thorough: an evenly spread, seed-shifted sample of the ordered pairs of the big pool."""
    p = gen.pool("thorough")
    if shard == 0:
        rec.note("big-pool-size", len(p))
    n = 0
    for a, b in spread_pairs(p, BIG_POOL_SAMPLE // nshards, seed, shard, nshards):
        n += 1
        if (n & 4095) == 0 and rec.expired():
            break
        rec.case({"kind": "pair", "a": a, "b": b})
    rec.note("big-pool-pairs", n)


DPKG_OPS = {-1: "lt", 0: "eq", 1: "gt"}


def _validate_reference(dpkg, a, b, k):
    """The real dpkg must agree with the reference on (a, b): two calls, one expected true, one false."""
    r = ref.reference(a, b)
    if not dpkg.holds(a, DPKG_OPS[r], b):
        raise ref.ModelError("reference says %r %s %r but dpkg denies it" % (a, DPKG_OPS[r], b))
    other = [o for o in (-1, 0, 1) if o != r][k % 2]
    if dpkg.holds(a, DPKG_OPS[other], b):
        raise ref.ModelError("reference says %r %s %r but dpkg also affirms %s"
                             % (a, DPKG_OPS[r], b, DPKG_OPS[other]))


def dpkg_phase_factory(n_hyp, n_pool, n_long=0):
    def dpkg_phase(shard, nshards, seed, deadline, rec):
        import hypothesis
        from hypothesis import given, settings, HealthCheck, Phase
        dpkg = ref.DpkgBinary()
        if not dpkg.available:
            rec.note("dpkg-binary-missing", 1)
        state = {"k": 0}

        def one(case):
            if rec.expired():
                return
            a, b = case["a"], case["b"]
            if dpkg.available and dpkg.comparable(a) and dpkg.comparable(b):
                _validate_reference(dpkg, a, b, state["k"])
                rec.note("dpkg-binary-pairs", 1)
            state["k"] += 1
            rec.case(case)

        st_ = settings(max_examples=n_hyp, database=None, deadline=None, derandomize=False,
                       phases=[Phase.generate], print_blob=False,
                       suppress_health_check=list(HealthCheck))
        hypothesis.seed(seed)(st_(given(gen.near_pair(small_epochs=True))(one)))()
        pool = gen.pool("thorough")
        for a, b in spread_pairs(pool, n_pool, seed, shard, nshards):
            one({"kind": "pair", "a": a, "b": b})
        # long digit runs (one() keeps epochs beyond INT_MAX away from the binary)
        for a, b in spread_pairs(gen.long_run_pool(), n_long, seed, shard, nshards):
            one({"kind": "pair", "a": a, "b": b})
        rec.note("dpkg-binary-calls", dpkg.calls)
    return dpkg_phase


def sources(tier):
    if tier == "quick":
        return [Enum("pool-all-pairs", all_pairs("quick"), EXHAUSTIVE["quick"]),
                Hyp("near-miss-pairs", gen.near_pair(), 2500, shards=6),
                Hyp("triples", gen.near_triple(), 1000, shards=4),
                Enum("long-digit-runs", long_run_pairs("quick"), "all ordered pairs within each long-digit-run list"),
                Hyp("long-run-near-misses", gen.long_run_case(), 1200, shards=2),
                Enum("assignment-attempts", gen.edit_cases, "start x donor x assignment template on a live object"),
                Hyp("edited-pairs", gen.edited_pair(), 1000, shards=2),
                Enum("operand-classes", gen.class_pair_cases, "all ordered pairs of a 36-version pool x 24 class pairs"),
                Hyp("classed-near-miss-pairs", gen.classed_pair(), 1200, shards=2),
                Enum("string-operands", gen.string_operand_cases,
                     "all ordered pairs of a 138-version pool x 3 (class, str) operand pairs"),
                Hyp("string-operand-near-miss-pairs", gen.string_operand_pair(), 1500, shards=2),
                Enum("objects-obtained-another-way", gen.object_cases,
                     "start x donor x way of duplicating x changed object x attempt x used-before (+ chains)"),
                Hyp("duplicated-and-edited-objects", gen.object_case(), 1000, shards=2),
                Custom("dpkg-binary", dpkg_phase_factory(450, 300, 150), shards=4)]
    return [Enum("pool-all-pairs", all_pairs("quick"), EXHAUSTIVE["thorough"]),
            Custom("big-pool-sample", big_pool_phase, shards=16),
            Hyp("near-miss-pairs", gen.near_pair(), 25000, shards=16),
            Hyp("triples", gen.near_triple(), 8000, shards=16),
            Enum("long-digit-runs", long_run_pairs("thorough"), "all ordered pairs of the long-digit-run pool"),
            Hyp("long-run-near-misses", gen.long_run_case(), 8000, shards=8),
            Enum("assignment-attempts", gen.edit_cases, "start x donor x assignment template on a live object"),
            Hyp("edited-pairs", gen.edited_pair(), 6000, shards=8),
            Enum("operand-classes", gen.class_pair_cases, "all ordered pairs of a 36-version pool x 24 class pairs"),
            Hyp("classed-near-miss-pairs", gen.classed_pair(), 8000, shards=8),
            Enum("string-operands", gen.string_operand_cases,
                 "all ordered pairs of a 138-version pool x 3 (class, str) operand pairs"),
            Hyp("string-operand-near-miss-pairs", gen.string_operand_pair(), 10000, shards=8),
            Enum("objects-obtained-another-way", gen.object_cases,
                 "start x donor x way of duplicating x changed object x attempt x used-before (+ chains)"),
            Hyp("duplicated-and-edited-objects", gen.object_case(), 6000, shards=8),
            Custom("dpkg-binary", dpkg_phase_factory(3500, 2750, 1000), shards=16)]
