"""Locate the tree under test and the third-party tooling.

Everything the checks need is resolved here, before any property module is imported:

* PYTHONHASHSEED is pinned to 0 (re-exec) so that nothing a check prints or counts depends on
  set/dict iteration order of strings;
* ``$VERIF_REPO_LIB`` (default ``/repo/lib``) is put in front of ``sys.path`` and ``debian`` must
  come from there -- Python has no build step, importing the current working tree *is* the rebuild;
* hypothesis must be importable; if it is not, it is installed offline from the wheelhouse into
  ``/verif/.deps`` (git-ignored).
"""
import os
import subprocess
import sys

ROOT = os.path.dirname(os.path.dirname(os.path.abspath(__file__)))
DEPS = os.path.join(ROOT, ".deps")
WHEELS = "/opt/veriftools/wheels"
GUARD = "PYTHON_DEBIAN_VERIF"


class HarnessError(Exception):
    """Something is wrong with the machinery itself (exit 2) -- never a property violation."""


def pin_hashseed():
    if os.environ.get("PYTHONHASHSEED") != "0":
        os.environ["PYTHONHASHSEED"] = "0"
        os.execv(sys.executable, [sys.executable, "-m", "vcheck"] + sys.argv[1:])


def repo_lib():
    return os.path.abspath(os.environ.get("VERIF_REPO_LIB", "/repo/lib"))


def ensure_pkg(name):
    try:
        __import__(name)
        return
    except ImportError:
        pass
    if os.path.isdir(DEPS) and DEPS not in sys.path:
        sys.path.insert(1, DEPS)
        try:
            __import__(name)
            return
        except ImportError:
            pass
    env = dict(os.environ, PIP_NO_INDEX="1")
    r = subprocess.run(
        [sys.executable, "-m", "pip", "install", "--quiet", "--no-index", "--find-links", WHEELS,
         "--target", DEPS, name], env=env, stdout=subprocess.PIPE, stderr=subprocess.STDOUT)
    if r.returncode != 0:
        raise HarnessError("cannot install %s offline: %s" % (name, r.stdout.decode()[-400:]))
    if DEPS not in sys.path:
        sys.path.insert(1, DEPS)
    import importlib
    importlib.invalidate_caches()
    __import__(name)


def boot():
    sys.dont_write_bytecode = True
    os.environ.setdefault(GUARD, "1")
    lib = repo_lib()
    if not os.path.isdir(os.path.join(lib, "debian")):
        raise HarnessError("no debian package under %s" % lib)
    sys.path.insert(0, lib)
    import debian  # noqa
    got = os.path.dirname(os.path.dirname(os.path.abspath(debian.__file__)))
    if os.path.realpath(got) != os.path.realpath(lib):
        raise HarnessError("debian imported from %s, expected %s" % (got, lib))
    ensure_pkg("hypothesis")
    return lib
